"""Interval abstract interpreter over MIR (forward, widening at loop heads, refinement on switch
and assert-success edges, copy-equalities so that a guard on a temporary refines the variable it
was copied from).  Intraprocedural; crate-local callees are summarised by their return interval
computed with unknown arguments (depth bound 2)."""
from collections import deque

from .mir import INT_RANGES, callee_of, scalar_value

INF = float("inf")
TOP = (-INF, INF)


def ty_range(ty):
    if ty in INT_RANGES:
        return INT_RANGES[ty]
    if ty == "bool":
        return (0, 1)
    if ty == "char":
        return (0, 0x10FFFF)
    return None


def is_num_ty(ty):
    return ty in INT_RANGES or ty in ("bool", "char")


def hull(a, b):
    return (min(a[0], b[0]), max(a[1], b[1]))


def meet(a, b):
    lo, hi = max(a[0], b[0]), min(a[1], b[1])
    if lo > hi:
        return None
    return (lo, hi)


def cell_of_place(p):
    """(local, path) for a place made of fields / downcasts only; None otherwise."""
    path = []
    for e in p["proj"]:
        if e["k"] == "field":
            path.append(e["i"])
        elif e["k"] == "downcast":
            path.append("@" + str(e["variant"]))
        else:
            return None
    return (p["local"], tuple(path))


# result interval summaries of std functions (one line of justification each)
def _std_summary(callee, t, args_iv, get_cell):
    c = callee
    if c.endswith("<impl char>::to_digit"):
        # Some(d) with 0 <= d < radix
        r = args_iv[1] if len(args_iv) > 1 else TOP
        return {("@Some", 0): (0, max(0, r[1] - 1) if r[1] != INF else 35)}
    if c.endswith("<std::iter::Enumerate<I> as std::iter::Iterator>::next"):
        # Some((i, x)): i counts the items of the underlying iterator; over memory (slice, Vec, chars,
        # split) there are at most isize::MAX of them
        full = t.get("callee_full") or ""
        if any(m in full for m in ("std::slice::Iter<", "std::slice::IterMut<", "std::vec::IntoIter<", "std::str::Chars<", "std::str::Split<", "std::array::IntoIter<")):
            return {("@Some", 0, 0): (0, 2**63 - 2)}
        return None
    if c.endswith("<impl str>::len") or c.endswith("Vec::<T, A>::len") or c.endswith("::len"):
        return {(): (0, 2**63 - 1)}          # allocation sizes are bounded by isize::MAX
    if c.endswith("::abs"):
        a = args_iv[0]
        lo = 0 if a[0] <= 0 <= a[1] else min(abs(a[0]), abs(a[1]))
        return {(): (lo, max(abs(a[0]), abs(a[1])))}
    if c in ("std::cmp::max",):
        a, b = args_iv[0], args_iv[1]
        return {(): (max(a[0], b[0]), max(a[1], b[1]))}
    if c in ("std::cmp::min",):
        a, b = args_iv[0], args_iv[1]
        return {(): (min(a[0], b[0]), min(a[1], b[1]))}
    if c.endswith("Duration::as_millis") or c.endswith("Duration::as_secs"):
        return {(): (0, 2**64 * 1000)}
    return None


class Intervals:
    def __init__(self, body, summaries=None, depth=0, arg_intervals=None, sub_analyses=None, variant_sets=False, through_refs=False, ret_assume=None, thresholds=None):
        """variant_sets: track for every enum-valued cell the *set* of variants it may hold instead of
        'one known variant or nothing':
          * sets are joined by union (an `Ok(None)` / `Err(e)` / `Ok(Some(p))` merge in any arrival
            order keeps the cells of `p`: they are vacuous wherever `Some` is excluded),
          * variant knowledge follows a value into aggregate fields (`Ok(None)`: payload of Ok is None),
            through `?` (`Try::branch`) and `Result::ok`,
          * a switch on `discriminant(x)` prunes the edges whose variants are excluded and records the
            variants of the edge taken.
        Off by default (the behaviour every existing caller was confirmed with); inherited by the
        analyses of callees."""
        self.variant_sets = variant_sets
        # through_refs: a place `(*r).f` where r is (a copy of) the one shared borrow `&x.g` of a local x
        # that is never borrowed mutably denotes `x.g.f` (an inlined `&self` helper reading the struct
        # its caller has just built).  Off by default; inherited by the analyses of callees.
        self.through_refs = through_refs
        # ret_assume: {callee: (lo, hi)} - the result of a call to that (recursive) function is taken to
        # lie in the interval instead of being analysed: the induction hypothesis of a caller that
        # discharges the matching obligation on the callee's return blocks itself.  Inherited by callees.
        self.ret_assume = ret_assume or {}
        # thresholds: widening at a loop head jumps to the nearest of these values before giving up to
        # infinity (finite set: termination is kept).  Empty by default = plain widening.
        self.thresholds = sorted(set(thresholds or ()))
        self.b = body
        self.facts = body.facts
        self.depth = depth
        self.summaries = summaries if summaries is not None else {}
        self.arg_intervals = arg_intervals or {}
        # (callee, context) -> Intervals of the callee in that context (shared across depths)
        self.sub_analyses = sub_analyses if sub_analyses is not None else {}
        self.IN = {}
        self.escaped = set()
        self._find_escapes()
        self._solve()

    # ---- helpers -----------------------------------------------------------------------------
    def _cop(self, p):
        """cell_of_place, looking through a shared reference to a local when through_refs is on."""
        if self.through_refs and p["proj"] and p["proj"][0]["k"] == "deref":
            from .mir import alias_of
            root, mode, proj = alias_of(self.b, p["local"])
            if mode == "ref" and root not in self.escaped and not any(e["k"] == "deref" for e in proj):
                return cell_of_place({"local": root, "proj": list(proj) + list(p["proj"][1:])})
        return cell_of_place(p)

    def _find_escapes(self):
        b = self.b
        for loc, st in b.iter_stmts():
            if st["k"] == "assign" and st["rv"]["k"] in ("ref", "rawptr") and st["rv"].get("mut", True):
                p = st["rv"]["place"]
                if p["proj"] and p["proj"][0]["k"] == "deref":
                    continue
                ty = b.local_ty(p["local"])
                if ty.startswith("std::ops::Range<"):
                    continue  # Range::next only moves `start` towards `end`: handled by its summary
                self.escaped.add(p["local"])

    def type_of_cell(self, cell):
        l, path = cell
        if not path:
            return self.b.local_ty(l)
        return None

    def get(self, st, cell, ty=None):
        if cell is None:
            return self._top(ty)
        if cell[0] in self.escaped:
            return self._top(ty)
        v = st["iv"].get(cell)
        if v is None:
            return self._top(ty or self.type_of_cell(cell))
        return v

    def _top(self, ty):
        r = ty_range(ty) if ty else None
        return r if r else TOP

    def operand_iv(self, st, o):
        if o["k"] == "const":
            if "val" in o:
                v = scalar_value(o)
                if isinstance(v, bool):
                    v = int(v)
                if isinstance(v, str):
                    v = ord(v)
                if isinstance(v, float):
                    return TOP
                return (v, v)
            return self._top(o.get("ty"))
        p = o["place"]
        cell = self._cop(p)
        return self.get(st, cell, p["ty"])

    def operand_cell(self, o):
        if o["k"] in ("copy", "move"):
            return self._cop(o["place"])
        return None

    # ---- transfer ----------------------------------------------------------------------------
    def _kill(self, st, local, prefix=()):
        iv = st["iv"]
        for c in [c for c in iv if c[0] == local and c[1][: len(prefix)] == prefix]:
            del iv[c]
        for m in (st["eq"], st["pred"]):
            for k in [k for k, v in m.items() if k[0] == local or self._mentions(v, local)]:
                del m[k]
        vm = st["variant"]
        for k in [k for k in vm if k[0] == local and k[1][: len(prefix)] == prefix]:
            del vm[k]

    @staticmethod
    def _mentions(v, local):
        if isinstance(v, tuple):
            for x in v:
                if isinstance(x, tuple) and x and x[0] == local:
                    return True
                if isinstance(x, tuple) and Intervals._mentions(x, local):
                    return True
        return False

    def _copy_cells(self, st, src, dst):
        iv = st["iv"]
        sl, sp = src
        dl, dp = dst
        new = {}
        for (l, path), v in iv.items():
            if l == sl and path[: len(sp)] == sp:
                new[(dl, dp + path[len(sp):])] = v
        newv = {(dl, dp + k[1][len(sp):]): v for k, v in st["variant"].items() if k[0] == sl and k[1][: len(sp)] == sp}
        self._kill(st, dl, dp)
        iv.update(new)
        st["variant"].update(newv)

    def assign(self, st, place, rv, loc):
        b = self.b
        dcell = self._cop(place)
        k = rv["k"]
        if dcell is None:
            # write through deref / index: untracked memory; nothing tracked changes
            return
        if k == "use":
            o = rv["op"]
            if o["k"] in ("copy", "move") and self._cop(o["place"]) is not None:
                src = self._cop(o["place"])
                if src[0] in self.escaped:
                    self._kill(st, dcell[0], dcell[1])
                    return
                self._copy_cells(st, src, dcell)
                if is_num_ty(place["ty"]):
                    st["iv"][dcell] = self.get(st, src, place["ty"])
                    st["eq"][dcell] = src
                return
            self._kill(st, dcell[0], dcell[1])
            if is_num_ty(place["ty"]):
                st["iv"][dcell] = self.operand_iv(st, o)
            return
        self._kill(st, dcell[0], dcell[1])
        if k == "binop":
            op = rv["op"]
            a, bb_ = self.operand_iv(st, rv["a"]), self.operand_iv(st, rv["b"])
            base = op.replace("WithOverflow", "").replace("Unchecked", "")
            if base in ("Eq", "Ne", "Lt", "Le", "Gt", "Ge"):
                st["pred"][dcell] = (base, self._desc(rv["a"]), self._desc(rv["b"]))
                st["iv"][dcell] = (0, 1)
                return
            r = self._arith(base, a, bb_)
            if op.endswith("WithOverflow"):
                if r is not None:
                    st["iv"][(dcell[0], dcell[1] + (0,))] = r
                st["ovf"][(dcell[0], dcell[1] + (1,))] = (base, a, bb_, rv["a"].get("ty") or rv["a"].get("place", {}).get("ty"))
            elif r is not None and is_num_ty(place["ty"]):
                tr = ty_range(place["ty"])
                if tr and (r[0] < tr[0] or r[1] > tr[1]):
                    r = tr  # wrapping arithmetic in release config
                st["iv"][dcell] = r
            return
        if k == "unop":
            a = self.operand_iv(st, rv["a"])
            if rv["op"] == "Neg":
                st["iv"][dcell] = (-a[1], -a[0])
            elif rv["op"] == "Not" and place["ty"] == "bool":
                src = self.operand_cell(rv["a"])
                if src in st["pred"]:
                    pb, x, y = st["pred"][src]
                    neg = {"Eq": "Ne", "Ne": "Eq", "Lt": "Ge", "Ge": "Lt", "Le": "Gt", "Gt": "Le"}[pb]
                    st["pred"][dcell] = (neg, x, y)
                st["iv"][dcell] = (0, 1)
            return
        if k == "cast":
            a = self.operand_iv(st, rv["op"])
            tr = ty_range(rv["ty"])
            if tr is None:
                return
            if rv["kind"].startswith("IntToInt") or rv["kind"].startswith("FloatToInt"):
                if a[0] >= tr[0] and a[1] <= tr[1]:
                    st["iv"][dcell] = a
                else:
                    st["iv"][dcell] = tr
            return
        if k == "aggregate":
            # struct / tuple literals: field cells
            vtag = ()
            if rv.get("agg") == "adt" and self._is_enum(rv["adt"]):
                vtag = ("@" + rv["variant"],)
                st["variant"][dcell] = frozenset([rv["variant"]]) if self.variant_sets else rv["variant"]
            for i, fo in enumerate(rv["fields"]):
                fty = fo.get("ty") or fo.get("place", {}).get("ty")
                sub = (dcell[0], dcell[1] + vtag + (i,))
                if fo["k"] in ("copy", "move") and self._cop(fo["place"]) is not None:
                    src = self._cop(fo["place"])
                    if src[0] not in self.escaped:
                        self._copy_into(st, src, sub)
                        if self.variant_sets:
                            self._copy_variants(st, src, sub)
                if fty and is_num_ty(fty):
                    st["iv"][sub] = self.operand_iv(st, fo)
            return
        if k == "discr":
            if self.variant_sets:
                src = self._cop(rv["place"])
                ty = rv["place"].get("ty")
                if src is not None and src[0] not in self.escaped and self._variant_names(ty):
                    # remembered like a comparison: killed with either local, consulted by the switch
                    st["pred"][dcell] = ("discr", src, ty)
            return
        if k == "unop" or k == "len":
            return

    def _is_enum(self, adt):
        if adt in ("std::option::Option", "std::result::Result"):
            return True
        a = self.facts.d["adts"].get(adt)
        return bool(a and a["kind"] == "Enum")

    def _copy_into(self, st, src, dst):
        iv = st["iv"]
        sl, sp = src
        for (l, path), v in list(iv.items()):
            if l == sl and path[: len(sp)] == sp:
                iv[(dst[0], dst[1] + path[len(sp):])] = v

    # ---- variant sets (only with variant_sets=True) ---------------------------------------------
    STD_VARIANTS = {"std::option::Option": {0: "None", 1: "Some"}, "std::result::Result": {0: "Ok", 1: "Err"},
                    "std::ops::ControlFlow": {0: "Continue", 1: "Break"}}

    def _variant_names(self, ty):
        """{discriminant: variant name} of an enum type (generic arguments ignored), or None."""
        if not ty:
            return None
        head = ty.split("<", 1)[0]
        if head in self.STD_VARIANTS:
            return self.STD_VARIANTS[head]
        a = self.facts.d["adts"].get(head)
        if a and a["kind"] == "Enum":
            try:
                return dict(self.facts.enum_variant_by_discr(head))
            except Exception:
                return None
        return None

    def _copy_variants(self, st, src, dst):
        """Variant knowledge at and below cell `src` also holds at and below `dst` (a moved value)."""
        sl, sp = src
        for (l, path), v in list(st["variant"].items()):
            if l == sl and path[: len(sp)] == sp:
                st["variant"][(dst[0], dst[1] + path[len(sp):])] = v

    def _map_variant(self, st, src, dst, rename):
        """dst holds rename[v] when src holds v (`Ok -> Continue`, `Err -> Break`, ...)."""
        known = st["variant"].get(src)
        if isinstance(known, frozenset) and known and all(x in rename for x in known):
            st["variant"][dst] = frozenset(rename[x] for x in known)

    @staticmethod
    def _excluded(known, name):
        """Does variant knowledge `known` (a name, a set of names, or None) exclude variant `name`?"""
        if known is None:
            return False
        if isinstance(known, frozenset):
            return name not in known
        return known != name

    def _desc(self, o):
        if o["k"] == "const":
            iv = self.operand_iv({"iv": {}, "eq": {}, "pred": {}, "ovf": {}, "variant": {}}, o)
            return ("c", iv[0]) if iv[0] == iv[1] else ("?",)
        c = self._cop(o["place"])
        if c is None:
            return ("?",)
        return ("cell", c, o["place"]["ty"])

    @staticmethod
    def _arith(op, a, b):
        try:
            if op == "Add":
                return (a[0] + b[0], a[1] + b[1])
            if op == "Sub":
                return (a[0] - b[1], a[1] - b[0])
            if op == "Mul":
                cs = []
                for x in a:
                    for y in b:
                        if (x in (INF, -INF) and y == 0) or (y in (INF, -INF) and x == 0):
                            cs.append(0)
                        else:
                            cs.append(x * y)
                return (min(cs), max(cs))
            if op == "Div":
                if b[0] <= 0 <= b[1]:
                    if b[0] == 0 and b[1] > 0:
                        b = (1, b[1])
                    elif b[1] == 0 and b[0] < 0:
                        b = (b[0], -1)
                    else:
                        return (-max(abs(a[0]), abs(a[1])), max(abs(a[0]), abs(a[1])))
                cs = []
                for x in a:
                    for y in b:
                        if x in (INF, -INF):
                            cs.append(x if y > 0 else -x)
                        elif y in (INF, -INF):
                            cs.append(0)
                        else:
                            q = abs(x) // abs(y)
                            cs.append(q if (x >= 0) == (y > 0) else -q)
                return (min(cs), max(cs))
            if op == "Rem":
                m = max(abs(b[0]), abs(b[1]))
                if m == INF:
                    return a if a[0] >= 0 else TOP
                if a[0] >= 0:
                    return (0, min(a[1], m - 1))
                return (-(m - 1), m - 1)
            if op == "BitAnd":
                if a[0] >= 0 and b[0] >= 0:
                    return (0, min(a[1], b[1]))
                return None
        except (TypeError, ValueError):
            return None
        return None

    def call(self, st, t, loc):
        b = self.b
        dest = t["dest"]
        dcell = self._cop(dest)
        callee = callee_of(t) or ""
        args_iv = [self.operand_iv(st, a) for a in t["args"]]
        # Range::next: payload in [start.lo, end.hi - 1]
        if callee.endswith("Iterator for std::ops::Range<A>>::next") or callee.endswith("Range<A> as std::iter::Iterator>::next"):
            from .mir import operand_alias
            al = operand_alias(b, t["args"][0])
            if dcell is not None:
                self._kill(st, dcell[0], dcell[1])
                if al and al[1] == "ref" and not al[2]:
                    r = al[0]
                    s_iv = self.get(st, (r, (0,)), "usize")
                    e_iv = self.get(st, (r, (1,)), "usize")
                    st["iv"][(dcell[0], dcell[1] + ("@Some", 0))] = (s_iv[0], max(s_iv[0], e_iv[1] - 1))
                    st["iv"][(r, (0,))] = (s_iv[0], max(s_iv[0], e_iv[1]))
            return
        if dcell is None:
            return
        self._kill(st, dcell[0], dcell[1])
        if callee.endswith("IntoIterator>::into_iter") and t["args"] and t["args"][0]["k"] in ("copy", "move"):
            src = self._cop(t["args"][0]["place"])
            if src is not None and src[0] not in self.escaped:
                self._copy_into(st, src, dcell)
            return
        if callee.endswith("::unwrap") or callee.endswith("::expect"):
            if t["args"][0]["k"] in ("copy", "move"):
                src = self._cop(t["args"][0]["place"])
                if src is not None and src[0] not in self.escaped:
                    for tag in ("@Some", "@Ok"):
                        self._copy_into(st, (src[0], src[1] + (tag, 0)), dcell)
            if is_num_ty(dest["ty"]) and dcell not in st["iv"]:
                st["iv"][dcell] = self._top(dest["ty"])
            return
        if callee.endswith(" as std::ops::Try>::branch") and t["args"] and t["args"][0]["k"] in ("copy", "move"):
            # `x?` on Result/Option: Ok(v) | Some(v) => ControlFlow::Continue(v); Err(e) => Break(Err(e))
            src = self._cop(t["args"][0]["place"])
            if src is not None and src[0] not in self.escaped:
                for tag in ("@Ok", "@Some"):
                    self._copy_into(st, (src[0], src[1] + (tag, 0)), (dcell[0], dcell[1] + ("@Continue", 0)))
                self._copy_into(st, (src[0], src[1] + ("@Err",)), (dcell[0], dcell[1] + ("@Break", 0, "@Err")))
                if self.variant_sets:
                    # what is known about the variants travels along (the join needs it, see _join.vacuous)
                    self._map_variant(st, src, dcell, {"Ok": "Continue", "Some": "Continue", "Err": "Break", "None": "Break"})
                    for tag in ("@Ok", "@Some"):
                        self._copy_variants(st, (src[0], src[1] + (tag, 0)), (dcell[0], dcell[1] + ("@Continue", 0)))
            return
        summ = _std_summary(callee, t, args_iv, None)
        if summ is not None:
            for path, iv in summ.items():
                st["iv"][(dcell[0], dcell[1] + path)] = iv
            return
        if callee.endswith("Range::<Idx>::contains"):
            st["pred"][dcell] = ("contains", self._range_desc(st, t["args"][0]), self._deref_desc(st, t["args"][1]))
            st["iv"][dcell] = (0, 1)
            return
        target = callee
        if callee.endswith("<impl str>::parse"):
            ga = (t.get("generic_args") or [""])[0]
            cand = "<%s as std::str::FromStr>::from_str" % ga
            if self.facts.has_body(cand):
                target = cand
        if callee.endswith("Result::<T, E>::ok") and t["args"][0]["k"] in ("copy", "move"):
            src = self._cop(t["args"][0]["place"])
            if src is not None and src[0] not in self.escaped:
                self._copy_into(st, (src[0], src[1] + ("@Ok",)), (dcell[0], dcell[1] + ("@Some",)))
                if self.variant_sets:
                    self._map_variant(st, src, dcell, {"Ok": "Some", "Err": "None"})
                    self._copy_variants(st, (src[0], src[1] + ("@Ok", 0)), (dcell[0], dcell[1] + ("@Some", 0)))
            return
        if target in self.ret_assume:
            st["iv"][dcell] = self.ret_assume[target]
            return
        if self.facts.has_body(target):
            r = self.local_summary(target, [self._arg_cells(st, a) for a in t["args"]])
            if r:
                for path, iv in r.items():
                    st["iv"][(dcell[0], dcell[1] + path)] = iv
            return

    def _range_desc(self, st, o):
        from .mir import operand_alias
        al = operand_alias(self.b, o)
        if al and al[1] == "ref":
            r = al[0]
            path = tuple(e["i"] for e in al[2] if e["k"] == "field")
            return (self.get(st, (r, path + (0,)), "usize"), self.get(st, (r, path + (1,)), "usize"))
        if al and al[1] == "val":
            # a reference to a promoted constant range: look through the defining expression
            from .expr import Exprs
            ex = Exprs(self.b)
            e = ex.operand(o, self.b.term_loc(0))
            while e[0] in ("ref", "deref"):
                e = e[1]
            if e[0] == "agg" and e[1].endswith("Range") and all(x[0] == "const" for x in e[3]):
                return ((e[3][0][1], e[3][0][1]), (e[3][1][1], e[3][1][1]))
        return (TOP, TOP)

    def _deref_desc(self, st, o):
        from .mir import operand_alias
        al = operand_alias(self.b, o)
        if al and al[1] == "ref":
            path = tuple(e["i"] for e in al[2] if e["k"] == "field")
            return ("cell", (al[0], path), None)
        return ("?",)

    def _arg_cells(self, st, o):
        """{path: interval} of the tracked cells of a call argument (context for the callee)."""
        if o["k"] == "const":
            iv = self.operand_iv(st, o)
            return {(): iv} if iv != TOP else {}
        c = self._cop(o["place"])
        if c is None or c[0] in self.escaped:
            return {}
        out = {}
        for (l, path), v in st["iv"].items():
            if l == c[0] and path[: len(c[1])] == c[1]:
                out[path[len(c[1]):]] = v
        return out

    def local_summary(self, callee, args=None):
        """{path: interval} of the return place of a crate-local callee, analysed in the context of
        the argument intervals (inlining bound 2; beyond it the result is unknown)."""
        ctxkey = tuple(tuple(sorted(a.items())) for a in (args or []))
        key = (callee, ctxkey)
        if key in self.summaries:
            return self.summaries[key]
        if self.depth >= 3:
            return None
        self.summaries[key] = None  # recursion guard
        cb = self.facts.body(callee)
        ai = {}
        for i, a in enumerate(args or []):
            for path, v in a.items():
                ai[(i + 1, path)] = v
        sub = Intervals(cb, self.summaries, self.depth + 1, ai, self.sub_analyses, variant_sets=self.variant_sets, through_refs=self.through_refs, ret_assume=self.ret_assume, thresholds=self.thresholds)
        self.sub_analyses[key] = sub
        r = None
        for rb in cb.return_blocks():
            stt = sub.state_at(cb.term_loc(rb))
            if stt is None:
                continue
            cells = {path: v for (l, path), v in stt["iv"].items() if l == 0}
            if r is None:
                r = cells
            else:
                r = {p: hull(v, cells[p]) for p, v in r.items() if p in cells}
        self.summaries[key] = r or {}
        return self.summaries[key]

    # ---- refinement ---------------------------------------------------------------------------
    def _refine_cell(self, st, cell, iv, ty=None):
        if cell is None or cell[0] in self.escaped:
            return True
        cur = self.get(st, cell, ty)
        m = meet(cur, iv)
        if m is None:
            return False
        st["iv"][cell] = m
        src = st["eq"].get(cell)
        if src is not None:
            cur2 = self.get(st, src, ty)
            m2 = meet(cur2, iv)
            if m2 is None:
                return False
            st["iv"][src] = m2
        # and the other direction: temporaries copied from this cell
        for k, v in st["eq"].items():
            if v == cell:
                c3 = meet(self.get(st, k, ty), iv)
                if c3 is not None:
                    st["iv"][k] = c3
        return True

    def _val(self, st, d):
        if d[0] == "c":
            return (d[1], d[1])
        if d[0] == "cell":
            return self.get(st, d[1], d[2])
        return TOP

    def refine_pred(self, st, pred, truth):
        op, x, y = pred
        if op == "discr":
            return True       # discriminant link (variant_sets): interpreted by the switch only
        if op == "contains":
            (slo, shi), (elo, ehi) = x
            if y[0] != "cell":
                return True
            if truth:
                return self._refine_cell(st, y[1], (slo[0] if isinstance(slo, tuple) else slo, (ehi[1] if isinstance(ehi, tuple) else ehi) - 1), y[2])
            return True
        if not truth:
            op = {"Eq": "Ne", "Ne": "Eq", "Lt": "Ge", "Ge": "Lt", "Le": "Gt", "Gt": "Le"}[op]
        a, b = self._val(st, x), self._val(st, y)
        ok = True
        if op == "Eq":
            m = meet(a, b)
            if m is None:
                return False
            if x[0] == "cell":
                ok &= self._refine_cell(st, x[1], m, x[2])
            if y[0] == "cell":
                ok &= self._refine_cell(st, y[1], m, y[2])
        elif op == "Ne":
            if a[0] == a[1] and b[0] == b[1] and a[0] == b[0]:
                return False
            if y[0] == "c" and x[0] == "cell":
                if a[0] == y[1]:
                    ok &= self._refine_cell(st, x[1], (a[0] + 1, a[1]), x[2])
                elif a[1] == y[1]:
                    ok &= self._refine_cell(st, x[1], (a[0], a[1] - 1), x[2])
        elif op == "Lt":
            if x[0] == "cell":
                ok &= self._refine_cell(st, x[1], (-INF, b[1] - 1), x[2])
            if y[0] == "cell":
                ok &= self._refine_cell(st, y[1], (a[0] + 1, INF), y[2])
        elif op == "Le":
            if x[0] == "cell":
                ok &= self._refine_cell(st, x[1], (-INF, b[1]), x[2])
            if y[0] == "cell":
                ok &= self._refine_cell(st, y[1], (a[0], INF), y[2])
        elif op == "Gt":
            if x[0] == "cell":
                ok &= self._refine_cell(st, x[1], (b[0] + 1, INF), x[2])
            if y[0] == "cell":
                ok &= self._refine_cell(st, y[1], (-INF, a[1] - 1), y[2])
        elif op == "Ge":
            if x[0] == "cell":
                ok &= self._refine_cell(st, x[1], (b[0], INF), x[2])
            if y[0] == "cell":
                ok &= self._refine_cell(st, y[1], (-INF, a[1]), y[2])
        return ok

    def edge_states(self, bb, st):
        """[(succ, state)] after the terminator of bb."""
        b = self.b
        t = b.term(bb)
        k = t["k"]
        out = []
        if k == "switch":
            d = t["discr"]
            dc = self.operand_cell(d)
            pred = st["pred"].get(dc) if dc is not None else None
            cases = t["cases"]
            listed = [v for v, _ in cases]
            for sc in b.succ.get(bb, []):
                vals = [v for v, tg in cases if tg == sc]
                is_oth = t["otherwise"] == sc
                s2 = self._clone(st)
                feasible = True
                if pred is not None and t["discr_ty"] == "bool":
                    if vals == [0] and not is_oth:
                        feasible = self.refine_pred(s2, pred, False)
                    elif is_oth and listed == [0]:
                        feasible = self.refine_pred(s2, pred, True)
                    elif vals == [1] and not is_oth:
                        feasible = self.refine_pred(s2, pred, True)
                elif dc is not None and is_num_ty(t["discr_ty"]) and t["discr_ty"] != "bool":
                    if pred is not None and pred[0] == "discr" and self.variant_sets:
                        # switch on discriminant(x): keep the edge only if x may hold one of its variants
                        names = self._variant_names(pred[2]) or {}
                        here = {names[v] for v in vals if v in names}
                        if is_oth:
                            here |= {n for dv, n in names.items() if dv not in listed}
                        known = s2["variant"].get(pred[1])
                        if isinstance(known, frozenset):
                            here &= known
                        if not here:
                            continue
                        s2["variant"][pred[1]] = frozenset(here)
                    cur = self.get(s2, dc, t["discr_ty"])
                    if not is_oth and vals:
                        iv = (min(vals), max(vals))
                        feasible = self._refine_cell(s2, dc, iv, t["discr_ty"])
                    elif is_oth:
                        # exclude listed values at the borders
                        lo, hi = cur
                        while lo in listed:
                            lo += 1
                        while hi in listed:
                            hi -= 1
                        if lo > hi:
                            feasible = False
                        else:
                            feasible = self._refine_cell(s2, dc, (lo, hi), t["discr_ty"])
                if feasible:
                    out.append((sc, s2))
            return out
        if k == "assert":
            s2 = self._clone(st)
            c = t["cond"]
            dc = self.operand_cell(c)
            feasible = True
            if dc is not None:
                pred = st["pred"].get(dc)
                if pred is not None:
                    feasible = self.refine_pred(s2, pred, t["expected"])
                ov = st["ovf"].get(dc)
                if ov is not None and t["expected"] is False:
                    # no overflow happened: the result is within the type range
                    base, a, bb2, ty = ov
                    tr = ty_range(ty) if ty else None
                    rc = (dc[0], dc[1][:-1] + (0,))
                    if tr is not None:
                        feasible = self._refine_cell(s2, rc, tr, ty)
            if feasible and (bb, t["target"]) not in b.dead_edges:   # a restricted body (Body.restrict) drops edges
                out.append((t["target"], s2))
            return out
        if k == "call":
            s2 = self._clone(st)
            self.call(s2, t, b.term_loc(bb))
            if t.get("target") is not None and (bb, t["target"]) not in b.dead_edges:
                out.append((t["target"], s2))
            return out
        for sc in b.succ.get(bb, []):
            out.append((sc, self._clone(st)))
        return out

    @staticmethod
    def _clone(st):
        return {"iv": dict(st["iv"]), "eq": dict(st["eq"]), "pred": dict(st["pred"]), "ovf": dict(st["ovf"]),
                "variant": dict(st.get("variant", {}))}

    def _join(self, a, b, widen=None):
        if a is None:
            return self._clone(b)
        iv = {}

        def vacuous(state, c):
            # cell under `@V` is vacuous in a state that knows the enum holds another variant
            l, path = c
            for i, comp in enumerate(path):
                if isinstance(comp, str) and comp.startswith("@"):
                    kv = state["variant"].get((l, path[:i]))
                    if self._excluded(kv, comp[1:]):
                        return True
            return False

        for c, v in b["iv"].items():
            if c not in a["iv"] and vacuous(a, c):
                iv[c] = v
        for c, v in a["iv"].items():
            w = b["iv"].get(c)
            if w is None:
                if vacuous(b, c):
                    iv[c] = v
                continue
            h = hull(v, w)
            if widen is not None and c[0] in widen:
                lo = v[0] if w[0] >= v[0] else max([x for x in self.thresholds if x <= w[0]], default=-INF)
                hi = v[1] if w[1] <= v[1] else min([x for x in self.thresholds if x >= w[1]], default=INF)
                h = (lo, hi)
            iv[c] = h
        eq = {k: v for k, v in a["eq"].items() if b["eq"].get(k) == v}
        pred = {k: v for k, v in a["pred"].items() if b["pred"].get(k) == v}
        ovf = {k: v for k, v in a["ovf"].items() if b["ovf"].get(k) == v}
        if self.variant_sets:
            # may-sets: union where both sides know something; a side on which the cell does not exist
            # (it lies under a variant that side excludes) does not weaken the other side's knowledge
            variant = {}
            for k in set(a["variant"]) | set(b["variant"]):
                va, vb = a["variant"].get(k), b["variant"].get(k)
                if va is not None and vb is not None:
                    variant[k] = va | vb
                elif va is not None and vacuous(b, k):
                    variant[k] = va
                elif vb is not None and vacuous(a, k):
                    variant[k] = vb
        else:
            variant = {k: v for k, v in a["variant"].items() if b["variant"].get(k) == v}
        return {"iv": iv, "eq": eq, "pred": pred, "ovf": ovf, "variant": variant}

    @staticmethod
    def _leq(a, b):
        """a is subsumed by b."""
        for c, v in b["iv"].items():
            w = a["iv"].get(c)
            if w is None:
                return False
            if w[0] < v[0] or w[1] > v[1]:
                return False
        for m in ("eq", "pred", "ovf", "variant"):
            for k, v in b[m].items():
                w = a[m].get(k)
                if m == "variant" and isinstance(v, frozenset) and isinstance(w, frozenset):
                    if not w <= v:
                        return False
                elif w != v:
                    return False
        return True

    def _flow_block(self, bb, st):
        st = self._clone(st)
        for i, s_ in enumerate(self.b.stmts(bb)):
            if s_["k"] == "assign":
                self.assign(st, s_["place"], s_["rv"], (bb, i))
        return st

    def _solve(self):
        b = self.b
        entry = {"iv": {}, "eq": {}, "pred": {}, "ovf": {}, "variant": {}}
        for cell, iv in self.arg_intervals.items():
            if isinstance(cell, int):
                cell = (cell, ())
            entry["iv"][cell] = iv
        self.IN = {0: entry}
        heads = {h for _, h in b.back_edges()}
        self.loop_mod = {}
        for h in heads:
            body_ = b.natural_loop(h)
            mod = set()
            for bb in body_:
                for s_ in b.stmts(bb):
                    if s_["k"] == "assign":
                        mod.add(s_["place"]["local"])
                t_ = b.term(bb)
                if t_["k"] == "call":
                    mod.add(t_["dest"]["local"])
                    # Range::next advances the range it is given
                    from .mir import operand_alias
                    for a_ in t_["args"]:
                        al_ = operand_alias(b, a_)
                        if al_ and al_[1] == "ref":
                            mod.add(al_[0])
            self.loop_mod[h] = mod
        visits = {}
        work = deque([0])
        steps = 0
        while work and steps < 20000:
            steps += 1
            bb = work.popleft()
            st = self._flow_block(bb, self.IN[bb])
            for sc, s2 in self.edge_states(bb, st):
                old = self.IN.get(sc)
                if old is not None and self._leq(s2, old):
                    continue
                visits[sc] = visits.get(sc, 0) + 1
                new = self._join(old, s2, widen=(self.loop_mod[sc] if (sc in heads and visits[sc] > 3) else None))
                self.IN[sc] = new
                if sc not in work:
                    work.append(sc)
        # narrowing: two descending passes recompute states from predecessors without widening
        for _ in range(2):
            order = sorted(self.IN)
            newIN = {0: entry}
            for bb in order:
                cur = self.IN.get(bb)
                if cur is None:
                    continue
                st = self._flow_block(bb, self.IN[bb])
                for sc, s2 in self.edge_states(bb, st):
                    newIN[sc] = self._join(newIN.get(sc), s2) if sc in newIN else self._clone(s2)
            # keep soundness: narrowed state must still be a post-fixpoint candidate; we only accept
            # it where it is below the widened one
            for bb, s2 in newIN.items():
                if bb in self.IN and self._leq(s2, self.IN[bb]):
                    self.IN[bb] = s2

    # ---- queries -----------------------------------------------------------------------------
    def state_at(self, loc):
        bb, idx = loc
        st = self.IN.get(bb)
        if st is None:
            return None
        st = self._clone(st)
        for i, s_ in enumerate(self.b.stmts(bb)[:idx]):
            if s_["k"] == "assign":
                self.assign(st, s_["place"], s_["rv"], (bb, i))
        return st

    def operand_at(self, loc, o):
        st = self.state_at(loc)
        if st is None:
            return None   # unreachable
        return self.operand_iv(st, o)

    def assert_holds(self, bb):
        """Is the assert terminating bb always satisfied?  (True, detail) / (False, detail)."""
        b = self.b
        t = b.term(bb)
        loc = b.term_loc(bb)
        st = self.state_at(loc)
        if st is None:
            return True, "unreachable"
        kind = t["assert_kind"]
        ops = t["ops"]
        if kind == "bounds":
            ln, ix = self.operand_iv(st, ops[0]), self.operand_iv(st, ops[1])
            ok = ix[0] >= 0 and ix[1] <= ln[0] - 1
            return ok, "index in [%s, %s], length >= %s" % (ix[0], ix[1], ln[0])
        if kind.startswith("overflow:"):
            op = kind.split(":")[1]
            a, c = self.operand_iv(st, ops[0]), self.operand_iv(st, ops[1])
            ty = ops[0].get("ty") or ops[0].get("place", {}).get("ty")
            tr = ty_range(ty)
            r = self._arith(op, a, c)
            if tr is None or r is None:
                return False, "cannot bound %s on %s" % (op, ty)
            ok = r[0] >= tr[0] and r[1] <= tr[1]
            return ok, "%s of [%s, %s] and [%s, %s] in %s" % (op, a[0], a[1], c[0], c[1], ty)
        if kind == "overflow_neg":
            a = self.operand_iv(st, ops[0])
            ty = ops[0].get("ty") or ops[0].get("place", {}).get("ty")
            tr = ty_range(ty)
            ok = tr is not None and a[0] > tr[0]
            return ok, "negation of [%s, %s] in %s" % (a[0], a[1], ty)
        if kind in ("div_zero", "rem_zero"):
            dc = self.operand_cell(t["cond"])
            pred = st["pred"].get(dc) if dc is not None else None
            if pred is None or pred[0] != "Eq":
                return False, "divisor test not recognised"
            x, y = pred[1], pred[2]
            d = x if y == ("c", 0) else (y if x == ("c", 0) else None)
            if d is None:
                return False, "divisor test not recognised"
            a = self._val(st, d)
            ok = a[0] > 0 or a[1] < 0
            return ok, "divisor in [%s, %s]" % a
        return False, "unknown assert kind %s" % kind
