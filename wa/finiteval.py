"""Finite instantiation of small pure crate-local functions: run the function concretely on given
argument values (wa/concwalk.py walks the CFG), following calls into other loop-free crate-local
functions, reading array literals, named constants and immutable statics, and indexing them.

Used to decide 'the table/value function returns V for kind K' by evaluation over all kinds instead of
by the spelling of the function (one `match` arm per kind, or-patterns, a lookup array indexed by
`kind.index()`, `const` or `static` tables ...)."""
from .concwalk import Conc
from .interp import Unknown
from .expr import Exprs


def enum_value(adt, variant):
    return ("adt", adt, variant, ())


def static_info(facts, name):
    for s in facts.d.get("statics", []):
        if s["name"] == name:
            return s
    return None


def static_is_constant(facts, name):
    """An immutable static without interior mutability that is not thread-local is a named constant:
    its value is its initialiser, for ever and for every thread."""
    s = static_info(facts, name)
    return bool(s) and (not s["mutable"]) and bool(s["freeze"]) and (not s["thread_local"])


def static_value(facts, name):
    """Value of a constant static (python ints / nested lists), by interpreting its initialiser."""
    from .mir import ConstEval
    s = static_info(facts, name)
    if s is None or not static_is_constant(facts, name):
        raise Unknown(("static", name))
    key = "static:" + name
    if key not in facts._cv:
        facts._cv[key] = ConstEval(facts, s["body"], s.get("promoted") or []).run()
    return facts._cv[key]


class FnConc(Conc):
    def __init__(self, facts, body, env, ex=None, depth=0):
        super().__init__(facts, body, env, ex)
        self.depth = depth

    def ev(self, e, depth=0):
        if e in self.env:
            return self.env[e]
        k = e[0]
        if k == "agg" and e[1] == "array":
            return [self.ev(x, depth + 1) for x in e[3]]
        if k == "repeat":
            return [self.ev(e[1], depth + 1)] * int(e[2])
        if k == "static":
            return static_value(self.facts, e[1])
        if k == "named":
            return self.ev(e[2], depth + 1)
        if k == "index":
            base, i = self.ev(e[1], depth + 1), self.ev(e[2], depth + 1)
            if isinstance(base, list) and isinstance(i, int) and not isinstance(i, bool) and 0 <= i < len(base):
                return base[i]
            raise Unknown(("index out of range or not an array", e))
        if k == "cidx":
            base = self.ev(e[1], depth + 1)
            if isinstance(base, list) and -len(base) <= e[2] < len(base):
                return base[e[2]]
            raise Unknown(e)
        return super().ev(e, depth)

    def _call(self, e, depth):
        name, args = e[1], e[2]
        if self.facts.has_body(name):
            return run_fn(self.facts, name, [self.ev(a, depth + 1) for a in args], self.depth + 1)
        return super()._call(e, depth)


def run_fn(facts, name, argvals, depth=0):
    """Value returned by crate-local function `name` on concrete arguments (Unknown if it cannot be
    evaluated: loops, unknown callees, missing values, a panic)."""
    if depth > 6:
        raise Unknown(("depth", name))
    b = facts.body(name)
    if b.loops():
        raise Unknown(("loop", name))
    if len(argvals) != b.arg_count:
        raise Unknown(("arity", name))
    env = {("arg", i + 1): v for i, v in enumerate(argvals)}
    v = FnConc(facts, b, env, Exprs(b), depth).run()
    if v is None:
        raise Unknown(("diverges", name))
    return v
