"""Interval evaluation of expression trees (for index operands whose leaves have known ranges)."""
from .mir import INT_RANGES
from .absint import Intervals, TOP


def expr_interval(e, leaf):
    """leaf(expr) -> (lo, hi) or None.  Returns (lo, hi) or None when unknown."""
    r = leaf(e)
    if r is not None:
        return r
    k = e[0]
    if k == "const" and isinstance(e[1], int) and not isinstance(e[1], bool):
        return (e[1], e[1])
    if k in ("deref", "ref"):
        return expr_interval(e[1], leaf)
    if k == "cast":
        a = expr_interval(e[2], leaf)
        tr = INT_RANGES.get(e[1])
        if a is None or tr is None:
            return None
        if a[0] >= tr[0] and a[1] <= tr[1]:
            return a
        return tr
    if k == "bin":
        a, b = expr_interval(e[2], leaf), expr_interval(e[3], leaf)
        if a is None or b is None:
            return None
        return Intervals._arith(e[1].replace("WithOverflow", ""), a, b)
    if k == "un" and e[1] == "Neg":
        a = expr_interval(e[2], leaf)
        return None if a is None else (-a[1], -a[0])
    return None
