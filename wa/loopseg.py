"""Loop segments: the acyclic pieces a reducible loop nest is made of, evaluated symbolically.

Every execution of a loop nest is a concatenation of *segments*: acyclic CFG paths that start at a
cut point (a loop header) and end with the edge that enters the next cut point (a back edge, the
entry edge of an inner loop) or leaves the region.  Evaluating each segment on its own with
`PathExprs` (wa/pathsym.py), where a local that the segment has not assigned yet reads as
('opaque', 'undef _N'), gives per segment
  * the complete conjunction of branch decisions it was taken under (not only the dominating ones),
  * the value of every local it assigns as a function of the state at its cut point.
A rule about 'what one iteration does' can then be stated over all segments instead of over the
statements of one syntactic shape (`acc += e` at one site, a `match` or an `if`, a helper call ...).
The helpers are restriction aware (they follow `Body.succ`, i.e. the edges left by `Body.restrict`)."""
from .pathsym import PathExprs
from .expr import subexprs


def segments(body, start, cuts, region, max_paths=2000):
    """All acyclic paths from block `start` that stay inside `region` until their last edge.
    Returns [(blocks, end)] where `end` is the block the last edge leads to: a member of `cuts`
    (a loop header: the segment is complete there) or a block outside `region` (the loop exit), or
    None when the last block has no successor (return / diverging call)."""
    out = []
    cuts = set(cuts)

    def rec(bb, blocks):
        if len(out) > max_paths:
            from .mir import ShapeNotRecognised
            raise ShapeNotRecognised("too many loop segments in %s" % body.name)
        blocks = blocks + [bb]
        ss = body.succ.get(bb, [])
        if not ss:
            out.append((blocks, None))
            return
        for s in ss:
            if s in cuts or s not in region:
                out.append((blocks, s))
            elif s in blocks:
                # a cycle that avoids every cut point: not a reducible nest over `cuts`
                from .mir import ShapeNotRecognised
                raise ShapeNotRecognised("%s: cycle through bb%d avoids the loop headers" % (body.name, s))
            else:
                rec(s, blocks)

    rec(start, [])
    return out


class SegExprs(PathExprs):
    """PathExprs with scalar replacement of array elements: a write `a[i] = v` whose index is a
    constant on this path defines the element cell (a, i); later reads `a[i]` on the path see v.
    (An array of two accumulators indexed by a function of the colour is two accumulators on each
    colour trace.)  A write with a non-constant index makes every element of `a` unknown."""

    def __init__(self, body):
        super().__init__(body)
        self.elems = {}        # (local, k) -> value
        self.blurred = set()   # locals written at a non-constant index

    def place(self, p, loc):
        proj = p["proj"]
        l = p["local"]
        if proj and proj[0]["k"] == "index" and l not in self.env and (l in self.blurred or any(k[0] == l for k in self.elems)):
            idx = self.local(proj[0]["local"], loc)
            if l in self.blurred or not (idx[0] == "const" and isinstance(idx[1], int)):
                e = ("opaque", "element of _%d after a write at an unknown index" % l)
            elif (l, idx[1]) in self.elems:
                e = self.elems[(l, idx[1])]
            else:
                e = ("index", self.local(l, loc), idx)
            for el in proj[1:]:
                k = el["k"]
                if k == "deref":
                    from .expr import mk_deref
                    e = mk_deref(e)
                elif k == "field":
                    e = self._field(e, el)
                elif k == "index":
                    e = ("index", e, self.local(el["local"], loc))
                elif k == "cindex":
                    e = ("cidx", e, el["offset"])
                elif k == "downcast":
                    e = ("downcast", e, el["variant"])
            return e
        return super().place(p, loc)


def eval_segment(body, blocks, end=None):
    """Symbolic effect of one segment.  Returns (env, conds):
    env[local] = value at the end of the segment of every local assigned as a whole on it;
    env[('elem', local, k)] = value of element k of an array local written as `local[i] = v` with i
    constant on the path (k is None, value opaque, if some index was not constant);
    conds = [(discr_expr, taken_values, is_otherwise, listed_values)] for every switch passed,
    including the one whose edge to `end` closes the segment."""
    px = SegExprs(body)
    conds = []
    n = len(blocks)
    for k, bb in enumerate(blocks):
        for i, st in enumerate(body.stmts(bb)):
            if st["k"] != "assign":
                continue
            p = st["place"]
            if p["proj"]:
                l = p["local"]
                if len(p["proj"]) == 1 and p["proj"][0]["k"] == "index" and l not in px.env:
                    idx = px.local(p["proj"][0]["local"], (bb, i))
                    v = px.rvalue(st["rv"], (bb, i))
                    if idx[0] == "const" and isinstance(idx[1], int) and l not in px.blurred:
                        px.elems[(l, idx[1])] = v
                    else:
                        px.blurred.add(l)
                    continue
                # callers that care reject other partial writes in the region up front (see indirect_writes)
                if l in px.env and not (p["proj"][0]["k"] == "deref"):
                    px.env[l] = ("opaque", "partially assigned")
                continue
            px.env[p["local"]] = px.rvalue(st["rv"], (bb, i))
            for key in [key for key in px.elems if key[0] == p["local"]]:
                del px.elems[key]
            px.blurred.discard(p["local"])
        t = body.term(bb)
        loc = body.term_loc(bb)
        if t["k"] == "call" and not t["dest"]["proj"]:
            px.env[t["dest"]["local"]] = px.call_expr(t, None)
        elif t["k"] == "switch":
            nxt = blocks[k + 1] if k + 1 < n else end
            if nxt is None:
                continue
            d = px.operand(t["discr"], loc)
            vals = [v for v, tg in t["cases"] if tg == nxt]
            conds.append((d, vals, t["otherwise"] == nxt, [v for v, _ in t["cases"]]))
    env = dict(px.env)
    for (l, kk), v in px.elems.items():
        env[("elem", l, kk)] = v
    for l in px.blurred:
        env[("elem", l, None)] = ("opaque", "element written at an unknown index")
    return env, conds


def cell_undef(c):
    """Expression a segment reads for cell c (a local, or ('elem', local, k)) at its cut point."""
    if isinstance(c, int):
        return undef(c)
    return ("index", undef(c[1]), ("const", c[2]))


def undef_cells(e):
    """Cells an expression of a segment reads from the state at the cut point: locals, and array
    elements read at a constant index (`a[1]` reads ('elem', a, 1), not all of a)."""
    out = set()

    def walk(x):
        if not isinstance(x, tuple) or not x:
            return
        if x[0] == "index" and len(x) == 3 and x[1][0] == "opaque" and str(x[1][1]).startswith("undef _") and x[2][0] == "const" and isinstance(x[2][1], int):
            out.add(("elem", int(x[1][1][len("undef _"):]), x[2][1]))
            return
        if x[0] == "opaque" and isinstance(x[1], str) and x[1].startswith("undef _"):
            out.add(int(x[1][len("undef _"):]))
            return
        for y in x[1:]:
            if isinstance(y, tuple):
                if y and isinstance(y[0], str):
                    walk(y)
                else:
                    for z in y:
                        walk(z)
    walk(e)
    return out


def undef_locals(e):
    """Locals an expression of a segment reads from the state at the cut point."""
    out = set()
    for x in subexprs(e):
        if x[0] == "opaque" and isinstance(x[1], str) and x[1].startswith("undef _"):
            out.add(int(x[1][len("undef _"):]))
    return out


def undef(l):
    return ("opaque", "undef _%d" % l)


def subst(e, m):
    """Replace every occurrence of the expressions that are keys of `m`."""
    if not isinstance(e, tuple):
        return e
    try:
        if e in m:
            return m[e]
    except TypeError:
        pass
    return tuple(subst(x, m) if isinstance(x, tuple) else x for x in e)


def indirect_writes(body, region):
    """Definition sites inside `region` that a per-segment evaluation of whole assignments does not
    see: writes to a projection of a local, writes through a pointer, `&mut` borrows, `&mut` locals
    handed to a call.  [(local, loc, kind)]"""
    rd = body.reaching()
    out = []
    for key, sites in rd.sites.items():
        for loc, kind in sites:
            if loc[0] in region and kind in ("partial", "borrow", "mem"):
                out.append((key if isinstance(key, int) else key[1], loc, kind))
    return out


def variants_on_path(conds, is_subject, variants_by_discr):
    """Variant names an enum-valued expression can have on a path with branch decisions `conds`:
    interprets `match subject` (discriminant switches) and `subject == Variant` / `!=` tests.
    `is_subject(expr)` recognises the expression (after strip_refs).  Returns a set of names; the
    empty set means the decisions contradict each other (infeasible path)."""
    from .expr import strip_refs
    from .pathsym import cond_truth
    allv = set(variants_by_discr.values())
    poss = set(allv)
    for c in conds:
        d, vals, oth, listed = c
        d0 = strip_refs(d)
        if d0[0] == "discr" and is_subject(strip_refs(d0[1])):
            here = {variants_by_discr[v] for v in vals if v in variants_by_discr}
            if oth:
                here |= {n for dv, n in variants_by_discr.items() if dv not in listed}
            poss &= here
        elif d0[0] == "bin" and d0[1] in ("Eq", "Ne"):
            a, b = strip_refs(d0[2]), strip_refs(d0[3])
            other = b if is_subject(a) else (a if is_subject(b) else None)
            if other is None or other[0] != "agg" or other[2] not in allv or other[3]:
                continue
            tr = cond_truth(c)
            if tr is None:
                continue
            if d0[1] == "Ne":
                tr = not tr
            poss &= {other[2]} if tr else (allv - {other[2]})
    return poss


def is_variant_test(cond, is_subject):
    """Is this branch decision a test of the enum expression recognised by `is_subject`?"""
    from .expr import strip_refs
    d0 = strip_refs(cond[0])
    if d0[0] == "discr":
        return is_subject(strip_refs(d0[1]))
    if d0[0] == "bin" and d0[1] in ("Eq", "Ne"):
        a, b = strip_refs(d0[2]), strip_refs(d0[3])
        return (is_subject(a) and b[0] == "agg") or (is_subject(b) and a[0] == "agg")
    return False


def subst_simplify(e, m):
    """`subst` followed by re-simplification on the way up: a field of a tuple/struct literal is that
    component, `*&x` is x, constant arithmetic is folded.  Needed when a key of `m` is replaced by a
    structured value (the payload `(k - lo, &base[k])` of an enumerating iterator)."""
    from .expr import mk_field, mk_deref, mk_ref, mk_bin
    if not isinstance(e, tuple):
        return e
    try:
        if e in m:
            return m[e]
    except TypeError:
        pass
    out = tuple(subst_simplify(x, m) if isinstance(x, tuple) else x for x in e)
    if out and isinstance(out[0], str):
        k = out[0]
        if k == "field" and len(out) == 3:
            base = out[1]
            if base[0] == "agg" and base[1] == "tuple":
                return mk_field(base, out[2])
            return out
        if k == "deref" and len(out) == 2:
            return mk_deref(out[1])
        if k == "ref" and len(out) == 2:
            return mk_ref(out[1])
        if k == "bin" and len(out) == 4:
            return mk_bin(out[1], out[2], out[3])
    return out


def strip_call_locs(e):
    """Value-numbering expressions (wa/expr.py) tag impure calls with their location; segment
    expressions do not.  Drop the tags so that both languages compare equal."""
    if not isinstance(e, tuple):
        return e
    if e and e[0] == "call" and len(e) == 4:
        return ("call", e[1], tuple(strip_call_locs(a) for a in e[2]), None)
    if e and e[0] in ("var", "mem"):
        return e
    return tuple(strip_call_locs(x) if isinstance(x, tuple) else x for x in e)


def segment_asserts(body, blocks):
    """[(bb, assert kind, operand expressions at that point)] for the asserts on a segment."""
    px = PathExprs(body)
    out = []
    for bb in blocks:
        for i, st in enumerate(body.stmts(bb)):
            if st["k"] == "assign" and not st["place"]["proj"]:
                px.env[st["place"]["local"]] = px.rvalue(st["rv"], (bb, i))
        t = body.term(bb)
        if t["k"] == "call" and not t["dest"]["proj"]:
            px.env[t["dest"]["local"]] = px.call_expr(t, None)
        elif t["k"] == "assert":
            out.append((bb, t["assert_kind"], [px.operand(o, body.term_loc(bb)) for o in t.get("ops", [])]))
    return out
