"""Loop segments: the acyclic pieces a reducible loop nest is made of, evaluated symbolically.

Every execution of a loop nest is a concatenation of *segments*: acyclic CFG paths that start at a
cut point (a loop header) and end with the edge that enters the next cut point (a back edge, the
entry edge of an inner loop) or leaves the region.  Evaluating each segment on its own with
`PathExprs` (wa/pathsym.py), where a local that the segment has not assigned yet reads as
('opaque', 'undef _N'), gives per segment
  * the complete conjunction of branch decisions it was taken under (not only the dominating ones),
  * the value of every local it assigns as a function of the state at its cut point.
A rule about 'what one iteration does' can then be stated over all segments instead of over the
statements of one syntactic shape (`acc += e` at one site, a `match` or an `if`, a helper call ...).
The helpers are restriction aware (they follow `Body.succ`, i.e. the edges left by `Body.restrict`)."""
from .pathsym import PathExprs
from .expr import subexprs


def segments(body, start, cuts, region, max_paths=2000):
    """All acyclic paths from block `start` that stay inside `region` until their last edge.
    Returns [(blocks, end)] where `end` is the block the last edge leads to: a member of `cuts`
    (a loop header: the segment is complete there) or a block outside `region` (the loop exit), or
    None when the last block has no successor (return / diverging call)."""
    out = []
    cuts = set(cuts)

    def rec(bb, blocks):
        if len(out) > max_paths:
            from .mir import ShapeNotRecognised
            raise ShapeNotRecognised("too many loop segments in %s" % body.name)
        blocks = blocks + [bb]
        ss = body.succ.get(bb, [])
        if not ss:
            out.append((blocks, None))
            return
        for s in ss:
            if s in cuts or s not in region:
                out.append((blocks, s))
            elif s in blocks:
                # a cycle that avoids every cut point: not a reducible nest over `cuts`
                from .mir import ShapeNotRecognised
                raise ShapeNotRecognised("%s: cycle through bb%d avoids the loop headers" % (body.name, s))
            else:
                rec(s, blocks)

    rec(start, [])
    return out


class SegExprs(PathExprs):
    """PathExprs with scalar replacement of aggregates and tracking of `&mut` pointers along one path:
      * a write `a[i] = v` whose index is a constant on this path, or `s.f = v`, defines the sub-place
        cell (a, i) / (s, 'f'); later reads on the path see v.  (An array of two accumulators indexed by
        a function of the colour, or a struct of two totals, is two accumulators on each colour trace.)
        A write with a non-constant index makes every element of `a` unknown;
      * `&mut x` / `&mut x.f` evaluates to ('ptr', x, path); copies, reborrows and tuple components carry
        it along, so `*p = v` / `(*p).f = v` / reads through p are resolved to the cell p points to on
        this path (a `match color` that picks which total to update, an inlined `add_assign(&mut self)`).
        A write through anything that is not such a pointer, or a pointer handed to a call other than
        an iterator's next(), sets `wild`: the path's effect is then not known."""

    def __init__(self, body):
        super().__init__(body)
        self.elems = {}        # (local, key) -> value      key: int index | str field name
        self.blurred = set()   # locals written at a non-constant index
        self.wild = []         # why the effect of the path is not fully known

    # -- pointers
    def rvalue(self, rv, loc):
        if rv["k"] in ("ref", "rawptr") and rv.get("mut", rv["k"] == "rawptr"):
            tgt = self.target(rv["place"], loc)
            if tgt is not None:
                return ("ptr", tgt[0], tgt[1])
        return super().rvalue(rv, loc)

    def target(self, p, loc):
        """(local, keys) the place denotes on this path, following a tracked pointer; keys are field
        names / constant indices; None if not resolvable."""
        l, proj = p["local"], p["proj"]
        keys = ()
        if proj and proj[0]["k"] == "deref":
            v = self.local(l, loc)
            if not (isinstance(v, tuple) and v and v[0] == "ptr"):
                return None
            l, keys, proj = v[1], tuple(v[2]), proj[1:]
        for el in proj:
            if el["k"] == "field":
                keys += (el["name"],)
            elif el["k"] == "index":
                idx = self.local(el["local"], loc)
                if not (idx[0] == "const" and isinstance(idx[1], int)):
                    return (l, keys + (None,))
                keys += (idx[1],)
            else:
                return None
        return l, keys

    def read(self, l, keys, loc):
        """value of the sub-place (l, keys) on this path"""
        if l in self.env or not keys:
            e = self.local(l, loc)
            rest = keys
        elif l in self.blurred or keys[0] is None:
            return ("opaque", "element of _%d at / after a write at an unknown index" % l)
        elif (l, keys[0]) in self.elems:
            e, rest = self.elems[(l, keys[0])], keys[1:]
        else:
            e, rest = self.local(l, loc), keys
        for k in rest:
            if k is None:
                return ("opaque", "unknown index")
            e = ("index", e, ("const", k)) if isinstance(k, int) else self._field(e, {"name": k, "i": self._field_index(e, k)})
        return e

    def _field_index(self, e, name):
        try:
            return int(name)
        except ValueError:
            pass
        if e[0] == "agg" and e[1] not in ("tuple", "array", "closure"):
            try:
                return self.facts.struct_fields(e[1]).index(name)
            except Exception:
                pass
        return 10 ** 6      # not an aggregate literal: _field keeps it symbolic by name

    def place(self, p, loc):
        proj = p["proj"]
        l = p["local"]
        through_ptr = bool(proj) and proj[0]["k"] == "deref" and isinstance(self.local(l, loc), tuple) and self.local(l, loc)[:1] == ("ptr",)
        tracked = l not in self.env and (l in self.blurred or any(k[0] == l for k in self.elems))
        if through_ptr or (tracked and proj and proj[0]["k"] in ("index", "field")):
            # split the projection into the leading cell path and the rest
            n = 1 if through_ptr else 0
            while n < len(proj) and proj[n]["k"] in ("field", "index") and (n - (1 if through_ptr else 0)) < 1:
                n += 1
            tgt = self.target({"local": l, "proj": proj[:n]}, loc)
            if tgt is not None:
                e = self.read(tgt[0], tgt[1], loc)
                for el in proj[n:]:
                    k = el["k"]
                    if k == "deref":
                        from .expr import mk_deref
                        e = mk_deref(e)
                    elif k == "field":
                        e = self._field(e, el)
                    elif k == "index":
                        e = ("index", e, self.local(el["local"], loc))
                    elif k == "cindex":
                        e = ("cidx", e, el["offset"])
                    elif k == "downcast":
                        e = ("downcast", e, el["variant"])
                return e
        return super().place(p, loc)

    def write(self, p, v, loc):
        """effect of `p = v` for a projected place p"""
        tgt = self.target(p, loc)
        if tgt is None:
            if p["proj"][0]["k"] == "deref":
                self.wild.append("write through `%s`, which is not a tracked `&mut` to a local" % self.b.lname(p["local"]))
            elif p["local"] in self.env:
                self.env[p["local"]] = ("opaque", "partially assigned")
            else:
                self.wild.append("partial write to `%s`" % self.b.lname(p["local"]))
            return
        l, keys = tgt
        if not keys:
            self.assign_whole(l, v)
        elif len(keys) == 1 and keys[0] is not None and l not in self.env and l not in self.blurred:
            self.elems[(l, keys[0])] = v
        elif len(keys) == 1 and l not in self.env:
            self.blurred.add(l)
        elif l in self.env:
            self.env[l] = ("opaque", "partially assigned")
        else:
            self.wild.append("nested partial write to `%s`" % self.b.lname(l))

    def assign_whole(self, l, v):
        self.env[l] = v
        for key in [key for key in self.elems if key[0] == l]:
            del self.elems[key]
        self.blurred.discard(l)


def _has_ptr(e):
    """the value *is* (or is an aggregate holding) a tracked pointer; a pointer that only occurs inside
    the argument of an already evaluated call (`next(&mut it)` in an item expression) is not passed on"""
    while e[0] in ("ref", "deref"):
        e = e[1]
    if e[0] == "ptr":
        return True
    if e[0] == "agg":
        return any(_has_ptr(x) for x in e[3])
    return False


def eval_segment(body, blocks, end=None):
    """Symbolic effect of one segment.  Returns (env, conds):
    env[local] = value at the end of the segment of every local assigned as a whole on it;
    env[('elem', local, k)] = value of sub-place k (constant index or field name) of a local written as
    `local[i] = v` / `local.f = v` / through a tracked `&mut` (k is None, value opaque, if some index
    was not constant); env[('wild',)] is present if some write on the path could not be attributed;
    conds = [(discr_expr, taken_values, is_otherwise, listed_values)] for every switch passed,
    including the one whose edge to `end` closes the segment."""
    px = SegExprs(body)
    conds = []
    n = len(blocks)
    for k, bb in enumerate(blocks):
        for i, st in enumerate(body.stmts(bb)):
            if st["k"] != "assign":
                continue
            p = st["place"]
            v = px.rvalue(st["rv"], (bb, i))
            if p["proj"]:
                px.write(p, v, (bb, i))
            else:
                px.assign_whole(p["local"], v)
        t = body.term(bb)
        loc = body.term_loc(bb)
        if t["k"] == "call":
            ce = px.call_expr(t, None)
            if any(_has_ptr(a) for a in (ce[2] if ce[0] == "call" else ())) and not (ce[1].endswith("::next")):
                px.wild.append("a `&mut` to a local is handed to `%s`" % ce[1])
            if not t["dest"]["proj"]:
                px.assign_whole(t["dest"]["local"], ce)
            else:
                px.write(t["dest"], ce, loc)
        elif t["k"] == "switch":
            nxt = blocks[k + 1] if k + 1 < n else end
            if nxt is None:
                continue
            d = px.operand(t["discr"], loc)
            vals = [v for v, tg in t["cases"] if tg == nxt]
            conds.append((d, vals, t["otherwise"] == nxt, [v for v, _ in t["cases"]]))
    env = dict(px.env)
    for (l, kk), v in px.elems.items():
        env[("elem", l, kk)] = v
    for l in px.blurred:
        env[("elem", l, None)] = ("opaque", "element written at an unknown index")
    if px.wild:
        env[("wild",)] = ("opaque", "; ".join(px.wild))
    return env, conds


def cell_undef(c):
    """Expression a segment reads for cell c (a local, or ('elem', local, k)) at its cut point."""
    if isinstance(c, int):
        return undef(c)
    if isinstance(c[2], int):
        return ("index", undef(c[1]), ("const", c[2]))
    return ("field", undef(c[1]), c[2])


def undef_cells(e):
    """Cells an expression of a segment reads from the state at the cut point: locals, and array
    elements read at a constant index (`a[1]` reads ('elem', a, 1), not all of a)."""
    out = set()

    def walk(x):
        if not isinstance(x, tuple) or not x:
            return
        if x[0] == "index" and len(x) == 3 and x[1][0] == "opaque" and str(x[1][1]).startswith("undef _") and x[2][0] == "const" and isinstance(x[2][1], int):
            out.add(("elem", int(x[1][1][len("undef _"):]), x[2][1]))
            return
        if x[0] == "field" and len(x) == 3 and x[1][0] == "opaque" and str(x[1][1]).startswith("undef _") and isinstance(x[2], str):
            out.add(("elem", int(x[1][1][len("undef _"):]), x[2]))
            return
        if x[0] == "opaque" and isinstance(x[1], str) and x[1].startswith("undef _"):
            out.add(int(x[1][len("undef _"):]))
            return
        for y in x[1:]:
            if isinstance(y, tuple):
                if y and isinstance(y[0], str):
                    walk(y)
                else:
                    for z in y:
                        walk(z)
    walk(e)
    return out


def undef_locals(e):
    """Locals an expression of a segment reads from the state at the cut point."""
    out = set()
    for x in subexprs(e):
        if x[0] == "opaque" and isinstance(x[1], str) and x[1].startswith("undef _"):
            out.add(int(x[1][len("undef _"):]))
    return out


def undef(l):
    return ("opaque", "undef _%d" % l)


def subst(e, m):
    """Replace every occurrence of the expressions that are keys of `m`."""
    if not isinstance(e, tuple):
        return e
    try:
        if e in m:
            return m[e]
    except TypeError:
        pass
    return tuple(subst(x, m) if isinstance(x, tuple) else x for x in e)


def indirect_writes(body, region):
    """Definition sites inside `region` that a per-segment evaluation of whole assignments does not
    see: writes to a projection of a local, writes through a pointer, `&mut` borrows, `&mut` locals
    handed to a call.  [(local, loc, kind)]"""
    rd = body.reaching()
    out = []
    for key, sites in rd.sites.items():
        for loc, kind in sites:
            if loc[0] in region and kind in ("partial", "borrow", "mem"):
                out.append((key if isinstance(key, int) else key[1], loc, kind))
    return out


def variants_on_path(conds, is_subject, variants_by_discr):
    """Variant names an enum-valued expression can have on a path with branch decisions `conds`:
    interprets `match subject` (discriminant switches) and `subject == Variant` / `!=` tests.
    `is_subject(expr)` recognises the expression (after strip_refs).  Returns a set of names; the
    empty set means the decisions contradict each other (infeasible path)."""
    from .expr import strip_refs
    from .pathsym import cond_truth
    allv = set(variants_by_discr.values())
    poss = set(allv)
    for c in conds:
        d, vals, oth, listed = c
        d0 = strip_refs(d)
        if d0[0] == "discr" and is_subject(strip_refs(d0[1])):
            here = {variants_by_discr[v] for v in vals if v in variants_by_discr}
            if oth:
                here |= {n for dv, n in variants_by_discr.items() if dv not in listed}
            poss &= here
        elif d0[0] == "bin" and d0[1] in ("Eq", "Ne"):
            a, b = strip_refs(d0[2]), strip_refs(d0[3])
            other = b if is_subject(a) else (a if is_subject(b) else None)
            if other is None or other[0] != "agg" or other[2] not in allv or other[3]:
                continue
            tr = cond_truth(c)
            if tr is None:
                continue
            if d0[1] == "Ne":
                tr = not tr
            poss &= {other[2]} if tr else (allv - {other[2]})
    return poss


def is_variant_test(cond, is_subject):
    """Is this branch decision a test of the enum expression recognised by `is_subject`?"""
    from .expr import strip_refs
    d0 = strip_refs(cond[0])
    if d0[0] == "discr":
        return is_subject(strip_refs(d0[1]))
    if d0[0] == "bin" and d0[1] in ("Eq", "Ne"):
        a, b = strip_refs(d0[2]), strip_refs(d0[3])
        return (is_subject(a) and b[0] == "agg") or (is_subject(b) and a[0] == "agg")
    return False


def subst_simplify(e, m):
    """`subst` followed by re-simplification on the way up: a field of a tuple/struct literal is that
    component, `*&x` is x, constant arithmetic is folded.  Needed when a key of `m` is replaced by a
    structured value (the payload `(k - lo, &base[k])` of an enumerating iterator)."""
    from .expr import mk_field, mk_deref, mk_ref, mk_bin
    if not isinstance(e, tuple):
        return e
    try:
        if e in m:
            return m[e]
    except TypeError:
        pass
    out = tuple(subst_simplify(x, m) if isinstance(x, tuple) else x for x in e)
    if out and isinstance(out[0], str):
        k = out[0]
        if k == "field" and len(out) == 3:
            base = out[1]
            if base[0] == "agg" and base[1] == "tuple":
                return mk_field(base, out[2])
            return out
        if k == "deref" and len(out) == 2:
            return mk_deref(out[1])
        if k == "ref" and len(out) == 2:
            return mk_ref(out[1])
        if k == "bin" and len(out) == 4:
            return mk_bin(out[1], out[2], out[3])
    return out


def strip_call_locs(e):
    """Value-numbering expressions (wa/expr.py) tag impure calls with their location; segment
    expressions do not.  Drop the tags so that both languages compare equal."""
    if not isinstance(e, tuple):
        return e
    if e and e[0] == "call" and len(e) == 4:
        return ("call", e[1], tuple(strip_call_locs(a) for a in e[2]), None)
    if e and e[0] in ("var", "mem"):
        return e
    return tuple(strip_call_locs(x) if isinstance(x, tuple) else x for x in e)


def segment_asserts(body, blocks):
    """[(bb, assert kind, operand expressions at that point)] for the asserts on a segment."""
    px = SegExprs(body)
    out = []
    for bb in blocks:
        for i, st in enumerate(body.stmts(bb)):
            if st["k"] == "assign":
                v = px.rvalue(st["rv"], (bb, i))
                if st["place"]["proj"]:
                    px.write(st["place"], v, (bb, i))
                else:
                    px.assign_whole(st["place"]["local"], v)
        t = body.term(bb)
        if t["k"] == "call" and not t["dest"]["proj"]:
            px.assign_whole(t["dest"]["local"], px.call_expr(t, None))
        elif t["k"] == "assert":
            out.append((bb, t["assert_kind"], [px.operand(o, body.term_loc(bb)) for o in t.get("ops", [])]))
    return out
