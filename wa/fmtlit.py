"""Decode the compact format-string templates rustc emits for format_args! (MIR level)."""
import ast


def decode_template(text):
    """b"\\x07info pv\\xc0..." -> 'info pv{}...' ; None if not a template."""
    if not text.startswith('b"'):
        return None
    try:
        raw = ast.literal_eval(text)
    except (SyntaxError, ValueError):
        return None
    out, i = [], 0
    while i < len(raw):
        c = raw[i]
        if c == 0:
            break
        if c & 0x80:
            out.append("{}")
            i += 1
            # placeholders with explicit formatting carry extra bytes; keep decoding conservatively
            continue
        lit = raw[i + 1:i + 1 + c]
        if len(lit) != c:
            return None
        try:
            out.append(lit.decode("utf-8"))
        except UnicodeDecodeError:
            return None
        i += 1 + c
    return "".join(out)


def templates(body):
    """[(loc, template string)] for every format template constant used in a body."""
    res = []
    for loc, st in body.iter_stmts():
        if st["k"] != "assign":
            continue
        rv = st["rv"]
        ops = []
        if rv["k"] == "use":
            ops = [rv["op"]]
        for o in ops:
            if o["k"] == "const" and o.get("ty", "").startswith("&[u8;") and "text" in o:
                t = decode_template(o["text"])
                if t is not None:
                    res.append((loc, t))
    for bb in body.normal:
        t = body.term(bb)
        if t["k"] == "call":
            for a in t["args"]:
                if a["k"] == "const" and "str" in a and (callee_of_name(t)).endswith("from_str_nonconst"):
                    res.append((body.term_loc(bb), a["str"]))
    return res


def callee_of_name(t):
    return t.get("resolved") or t.get("callee") or ""


def string_literals(body):
    """[(loc, str)] of all &str constants used in a body (statements and call arguments)."""
    import json
    res = []
    def walk(x, loc):
        if isinstance(x, dict):
            if x.get("k") == "const" and "str" in x:
                res.append((loc, x["str"]))
            for v in x.values():
                walk(v, loc)
        elif isinstance(x, list):
            for v in x:
                walk(v, loc)
    for loc, st in body.iter_stmts():
        walk(st.get("rv"), loc)
    for bb in body.normal:
        if bb in body.reachable:
            t = body.term(bb)
            walk(t.get("args"), body.term_loc(bb))
    return res
