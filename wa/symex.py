"""Forking symbolic execution of MIR paths (loop-free code, loops over constant tables, or exactly one
iteration of a loop with symbolic loop-carried state).

Values are the expressions of wa/expr.py plus
  ('addr', frame, local, proj)   a `&mut` pointer to a place of a local of an active frame
  ('iter', items, pos)           a slice iterator over a compile-time table (items: expressions)
  ('sym', name)                  an input symbol (loop-carried variable, hypothesis parameter)
  ('obj', base, ((path, value), ...))   `base` with some fields overwritten (successor under construction)

The executor follows the normal-completion CFG.  A switch whose discriminant evaluates to a constant
(also: the discriminant of a known aggregate) takes that edge; any other switch forks, and the decision is
recorded as a path condition `(discriminant value, taken values, is_otherwise, listed values)` (the
format of wa/pathsym.py, so `cond_truth` applies).  A discriminant decided earlier on the path keeps its
decision.  What the executor models natively, because it is what the operation *is*:
  * `&mut` borrows of locals and writes / `op_assign` through them (`x += d`, `add_assign(&mut x, &d)`)
  * `into_iter` / `iter` on a constant array or slice and `next` on it (concrete unrolling); constant ranges
  * `Option`'s `?` (`Try::branch`): Continue(x) <=> Some(x)
  * calls of crate-local functions chosen by `inline` are executed in a frame of their own
Every other call is an uninterpreted value `('call', callee, args, loc)` and is logged as an event.

`summarise_loop` runs one iteration of a loop with its carried variables symbolic: the continue
paths give the carried update (the affine step of a walk), the exit paths run on to `stop` blocks.
"""
from .mir import callee_of, ShapeNotRecognised
from .expr import Exprs, mk_ref, mk_deref, mk_bin, mk_field, strip_refs
from .cond import switch_edges, STD_ENUMS
from .paths import compatible


import re as _re
_OPASSIGN = _re.compile(r"^std::ops::(Add|Sub|Mul)Assign::\w+_assign$")


class Unsupported(ShapeNotRecognised):
    pass


class Path:
    __slots__ = ("blocks", "conds", "events", "env", "end", "end_bb", "ret")

    def __init__(self, blocks, conds, events, env, end, end_bb, ret):
        self.blocks, self.conds, self.events, self.env, self.end, self.end_bb, self.ret = blocks, conds, events, env, end, end_bb, ret


class _State:
    __slots__ = ("store", "conds", "events", "decided", "visits", "blocks")

    def __init__(self):
        self.store = {}
        self.conds = []
        self.events = []
        self.decided = {}
        self.visits = {}
        self.blocks = []

    def clone(self):
        s = _State()
        s.store = {k: dict(v) for k, v in self.store.items()}
        s.conds = list(self.conds)
        s.events = list(self.events)
        s.decided = dict(self.decided)
        s.visits = dict(self.visits)
        s.blocks = list(self.blocks)
        return s


KEEP_OVERLAY = {"board::BoardState::swap_color", "board::BoardState::unset_pawn_double_move",
                "board::BoardState::move_piece", "board::BoardState::take_away_castling_rights"}


class _FrameEval(Exprs):
    """Expression construction against the store of one frame (reuses the operand / rvalue / call
    normalisation of Exprs)."""

    def __init__(self, sx, body, fid, fallback):
        self.keep = set()
        self.b = body
        self.facts = body.facts
        self.rd = None
        self._memo = {}
        self._busy = set()
        self.sx = sx
        self.fid = fid
        self.fallback = fallback
        self.st = None

    # -- reads
    def local(self, l, loc=None):
        env = self.st.store[self.fid]
        if l in env:
            return env[l]
        if self.fallback is not None:
            v = self.fallback(l)
            if v is not None:
                return v
        if 1 <= l <= self.b.arg_count:
            return ("arg", l)
        return ("opaque", "undef _%d" % l)

    def project(self, v, el):
        k = el["k"]
        if k == "deref":
            if v[0] == "addr":
                return self.sx.read_addr(self.st, v)
            return mk_deref(v)
        if k == "field":
            if v[0] == "obj":
                for path, val in v[2]:
                    if path == (el["name"],):
                        return val
                return mk_field(v[1], el["name"]) if v[1][0] != "agg" else self._field(v[1], el)
            # `?`: the payload of Continue is the payload of Some
            if v[0] == "downcast" and v[2] == "Continue" and v[1][0] == "call" and v[1][1].endswith("Try>::branch"):
                return self._field(("downcast", strip_refs(v[1][2][0]), "Some"), el)
            return self._field(v, el)
        if k == "index":
            idx = self.local(el["local"])
            if v[0] == "agg" and v[1] == "array" and idx[0] == "const" and isinstance(idx[1], int) and 0 <= idx[1] < len(v[3]):
                return v[3][idx[1]]
            return ("index", v, idx)
        if k == "cindex":
            if v[0] == "agg" and v[1] == "array" and not el["from_end"] and el["offset"] < len(v[3]):
                return v[3][el["offset"]]
            return ("cidx", v, -el["offset"] if el["from_end"] else el["offset"])
        if k == "downcast":
            return ("downcast", v, el["variant"])
        return ("opaque", "proj")

    def place(self, p, loc=None):
        v = self.local(p["local"])
        assume = self.sx.assume
        for el in p["proj"]:
            v = self.project(v, el)
            if assume:
                k = erase(v)
                if k in assume:
                    v = assume[k]
        return v

    def rvalue(self, rv, loc=None):
        k = rv["k"]
        if k in ("ref", "rawptr"):
            p = rv["place"]
            mut = rv.get("mut", k == "rawptr")
            if len(p["proj"]) == 1 and p["proj"][0]["k"] == "deref":
                return self.local(p["local"])
            if mut:
                a = self.sx.addr_of(self.st, self.fid, p, self)
                if a is not None:
                    return a
            return mk_ref(self.place(p))
        if k == "discr":
            return self.sx.discr_value(self.place(rv["place"]), rv["place"]["ty"])
        return Exprs.rvalue(self, rv, loc)


class SymEx:
    def __init__(self, facts, inline=None, max_visits=40, max_paths=4000, body_of=None, assume=None):
        """inline(name): execute calls of this crate-local function in a frame of their own;
        body_of(name): the Body to execute for it (default facts.body; pass wa.itermodel.xbody to
        see iterator folds and closures as loops)."""
        self.facts = facts
        self.body_of = body_of or facts.body
        # hypothesis: {erased place expression: value}, e.g. {('field', ('arg', 1), 'to_move'): <White>}
        self.assume = dict(assume or {})
        self.inline = inline or (lambda name: False)
        self.max_visits = max_visits
        self.max_paths = max_paths
        self.nframes = 0
        self.npaths = 0

    # ---- values --------------------------------------------------------------------------------
    def discr_value(self, v, ty):
        a = strip_refs(v)
        if a[0] == "obj":
            a = a[1]
        if a[0] == "agg" and a[2] and a[1] not in ("tuple", "array", "closure"):
            try:
                names = self.facts.enum_variant_by_discr(a[1])
            except Exception:
                names = STD_ENUMS.get(a[1])
            if names:
                for dv, n in names.items():
                    if n == a[2]:
                        return ("const", dv)
        if a[0] == "call" and a[1].endswith("Try>::branch") and len(a[2]) == 1:
            # ControlFlow::Continue = 0 <=> Some = 1
            return ("trydiscr", self.discr_value(strip_refs(a[2][0]), "std::option::Option"))
        return ("discr", v, ty)

    def addr_of(self, st, fid, p, fe):
        """`&mut place`: an address when the place is rooted in a frame local (or reached through an
        address held in one)."""
        proj = list(p["proj"])
        l = p["local"]
        if proj and proj[0]["k"] == "deref":
            v = fe.local(l)
            if v[0] == "addr":
                return ("addr", v[1], v[2], v[3] + tuple(_freeze(e, fe) for e in proj[1:]))
            return None
        if any(e["k"] == "deref" for e in proj):
            return None
        return ("addr", fid, l, tuple(_freeze(e, fe) for e in proj))

    def read_addr(self, st, a):
        _, fid, l, proj = a
        fe = self.frames[fid]
        fe.st = st
        v = fe.local(l)
        for el in proj:
            v = fe.project(v, _thaw(el))
        return v

    def write(self, st, fid, p_local, proj, val, loc):
        fe = self.frames[fid]
        fe.st = st
        env = st.store[fid]
        proj = list(proj)
        if not proj:
            env[p_local] = val
            return
        if proj[0]["k"] == "deref":
            v = fe.local(p_local)
            if v[0] == "addr":
                self.write(st, v[1], v[2], [_thaw(e) for e in v[3]] + proj[1:], val, loc)
                return
            st.events.append(("memwrite", loc, fid, p_local, tuple(e.get("name", e["k"]) for e in proj[1:]), val))
            return
        cur = fe.local(p_local)
        path = tuple(e.get("name", e["k"]) for e in proj)
        if len(proj) == 1 and proj[0]["k"] == "field" and cur[0] == "agg" and cur[1] not in ("array",) and proj[0]["i"] < len(cur[3]):
            fs = list(cur[3])
            fs[proj[0]["i"]] = val
            env[p_local] = (cur[0], cur[1], cur[2], tuple(fs))
            return
        st.events.append(("write", loc, fid, p_local, path, val, _ident(cur)))
        if cur[0] == "obj":
            over = tuple((pp, vv) for pp, vv in cur[2] if pp != path) + ((path, val),)
            env[p_local] = ("obj", cur[1], over)
        else:
            env[p_local] = ("obj", cur, ((path, val),))

    # ---- execution -----------------------------------------------------------------------------
    def run(self, body, start=0, env=None, stop=(), fallback=None, stop_edges=()):
        """All paths from `start` to a return, a diverging block, or a block in `stop` / an edge in
        `stop_edges` (the edge's target is not entered).  Returns [Path]."""
        self.frames = {}
        self.nframes = 0
        self.npaths = 0
        st = _State()
        out = []
        for kind, bb, st2, fid in self._run_fn(body, start, dict(env or {}), st, set(stop), set(stop_edges), fallback):
            e = st2.store[fid]
            out.append(Path(st2.blocks, st2.conds, st2.events, e, kind, bb, e.get(0)))
        return out

    def _run_fn(self, body, start, env, st, stop, stop_edges, fallback, depth=0):
        fid = self.nframes
        self.nframes += 1
        fe = _FrameEval(self, body, fid, fallback)
        self.frames[fid] = fe
        st.store[fid] = env
        work = [(start, st, None)]
        top = depth == 0
        while work:
            bb, st, prev = work.pop()
            while True:
                if bb in stop or (prev is not None and (prev, bb) in stop_edges):
                    yield ("stop", bb, st, fid)
                    break
                key = (fid, bb)
                st.visits[key] = st.visits.get(key, 0) + 1
                if st.visits[key] > self.max_visits:
                    raise Unsupported("unbounded loop at bb%d of %s in symbolic execution" % (bb, body.name))
                if top:
                    st.blocks.append(bb)
                fe.st = st
                for i, s in enumerate(body.stmts(bb)):
                    if s["k"] != "assign":
                        continue
                    val = fe.rvalue(s["rv"], (bb, i))
                    self.write(st, fid, s["place"]["local"], s["place"]["proj"], val, (fid, bb, i))
                    fe.st = st
                t = body.term(bb)
                k = t["k"]
                loc = (fid, bb, len(body.stmts(bb)))
                if k == "return":
                    self.npaths += 1
                    if self.npaths > self.max_paths:
                        raise Unsupported("too many paths in %s" % body.name)
                    yield ("return", bb, st, fid)
                    break
                if k in ("goto", "assert", "drop"):
                    if t.get("target") is None:
                        yield ("diverge", bb, st, fid)
                        break
                    prev, bb = bb, t["target"]
                    continue
                if k == "call":
                    nxt = t.get("target")
                    conts = self._call(body, fe, st, fid, t, loc, stop, depth)
                    if nxt is None:
                        for st2 in conts:
                            yield ("diverge", bb, st2, fid)
                        break
                    conts = list(conts)
                    for st2 in conts[1:]:
                        work.append((nxt, st2, bb))
                    if not conts:
                        break
                    st = conts[0]
                    prev, bb = bb, nxt
                    continue
                if k == "switch":
                    d = fe.operand(t["discr"], None)
                    edges = self._decide(body, st, bb, t, d)
                    if not edges:
                        break
                    for tg, st2 in edges[1:]:
                        work.append((tg, st2, bb))
                    tg, st = edges[0]
                    prev, bb = bb, tg
                    continue
                if k == "unreachable":
                    break
                raise Unsupported("terminator %s in %s" % (k, body.name))

    def _decide(self, body, st, bb, t, d):
        is_bool = t.get("discr_ty") == "bool"
        neg = False
        d0 = d
        while is_bool and d0[0] == "un" and d0[1] == "Not":
            d0, neg = d0[2], not neg
        d0 = fold_ground_eq(d0)
        flip = False
        if d0[0] == "trydiscr":
            # discriminant of the ControlFlow made from an Option: Continue(0) <=> Some(1)
            d0, flip = d0[1], True
        listed = [v for v, _ in t["cases"]]
        if d0[0] == "const" and isinstance(d0[1], (int, bool)):
            v = int(d0[1])
            if neg:
                v = 1 - v
            if flip:
                v = 1 - v
            take = t["otherwise"]
            for val, tg in t["cases"]:
                if val == v:
                    take = tg
            if body.blocks[take]["term"]["k"] == "unreachable":
                return []
            return [(take, st)]
        out = []
        for tg, vals, oth in switch_edges(body, bb):
            if (bb, tg) in body.dead_edges:
                continue
            if is_bool:
                truth = None
                if not oth and vals == [0]:
                    truth = False
                elif not oth and vals == [1]:
                    truth = True
                elif oth and listed == [0]:
                    truth = True
                elif oth and listed == [1]:
                    truth = False
                if truth is None:
                    nd, nvals, noth, nlisted = d, vals, oth, listed
                else:
                    if neg:
                        truth = not truth
                    nd, nvals, noth, nlisted = d0, [1 if truth else 0], False, [0, 1]
            elif flip:
                nd, nvals, noth, nlisted = d0, [1 - v for v in vals], oth, [1 - v for v in listed]
            else:
                nd, nvals, noth, nlisted = d, vals, oth, listed
            this = (tuple(nvals), False) if not noth else (tuple(nlisted), True)
            if nd in st.decided:
                if not compatible(st.decided[nd], this):
                    continue
                out.append((tg, st if not out else st.clone()))
                continue
            st2 = st.clone()
            st2.decided[nd] = this
            st2.conds.append((nd, list(nvals), noth, list(nlisted)))
            st2.events.append(("cond", (None, bb, len(body.stmts(bb))), (nd, list(nvals), noth, list(nlisted))))
            out.append((tg, st2))
        return out

    # ---- calls ---------------------------------------------------------------------------------
    def _call(self, body, fe, st, fid, t, loc, stop, depth):
        callee = callee_of(t) or "?"
        generic = t.get("callee") or ""
        args = tuple(fe.operand(a, None) for a in t["args"])
        dest = t["dest"]

        def ret(val, st_=st):
            self.write(st_, fid, dest["local"], dest["proj"], val, loc)
            return [st_]

        # x op= y through a pointer
        m = _OPASSIGN.match(generic)
        if m and len(args) == 2 and args[0][0] == "addr":
            op = m.group(1)
            if op in ("Add", "Sub", "Mul"):
                cur = self.read_addr(st, args[0])
                rhs = args[1]
                if rhs[0] == "ref":
                    rhs = rhs[1]
                elif t["arg_tys"][1].startswith("&"):
                    rhs = mk_deref(rhs)
                a = args[0]
                self.write(st, a[1], a[2], [_thaw(e) for e in a[3]], mk_bin(op, cur, rhs), loc)
                return ret(("unit",))
        # lazy adaptors are values; `next` on them (or on an iterator that summarise_loop marked as
        # 'in some state', ('giter', it)) yields a *generic element* of the comprehension they denote
        if generic in LAZY and len(args) == 2 and strip_refs(args[1])[0] == "agg" and strip_refs(args[1])[1] == "closure":
            src = strip_refs(args[0])
            if src[0] in ("lazy", "giter") or _table_iter(src) is not None:
                return ret(("lazy", LAZY[generic], src[1] if src[0] == "giter" else src, strip_refs(args[1])))
        if generic == "std::iter::IntoIterator::into_iter" and args and strip_refs(args[0])[0] in ("lazy", "giter"):
            return ret(strip_refs(args[0]))
        if generic == "std::iter::Iterator::next" and len(args) == 1 and args[0][0] == "addr":
            cur = self.read_addr(st, args[0])
            if cur[0] in ("lazy", "giter"):
                outs = []
                for elem, st2 in self._generic(cur[1] if cur[0] == "giter" else cur, st.clone(), depth):
                    outs += ret(("agg", "std::option::Option", "Some", (elem,)), st2)
                outs += ret(("agg", "std::option::Option", "None", ()), st.clone())
                return outs
        # iterators over compile-time tables
        if generic in ("std::iter::IntoIterator::into_iter",) or callee.endswith("::iter") and "slice" in callee:
            src = args[0] if args else None
            it = _table_iter(src)
            if it is not None:
                return ret(it)
        if generic == "std::iter::Iterator::next" and len(args) == 1 and args[0][0] == "addr":
            cur = self.read_addr(st, args[0])
            a = args[0]
            if cur[0] == "iter":
                items, pos = cur[1], cur[2]
                if pos < len(items):
                    self.write(st, a[1], a[2], [_thaw(e) for e in a[3]], ("iter", items, pos + 1) + tuple(cur[3:]), loc)
                    # an array iterated by value (`for p in [a, b]`) hands out the elements, one
                    # iterated through a reference / slice hands out references to them
                    byval = len(cur) > 3 and cur[3] == "byval"
                    return ret(("agg", "std::option::Option", "Some", ((items[pos] if byval else ("ref", items[pos])),)))
                return ret(("agg", "std::option::Option", "None", ()))
            if cur[0] == "agg" and cur[1].endswith("ops::Range") and all(x[0] == "const" for x in cur[3]):
                lo, hi = cur[3][0][1], cur[3][1][1]
                if lo < hi:
                    self.write(st, a[1], a[2], [_thaw(e) for e in a[3]], (cur[0], cur[1], cur[2], (("const", lo + 1), ("const", hi))), loc)
                    return ret(("agg", "std::option::Option", "Some", (("const", lo),)))
                return ret(("agg", "std::option::Option", "None", ()))
        if len(args) == 1 and callee.rsplit("::", 1)[-1] in ("is_some", "is_none", "is_ok", "is_err") and ("Option::<T>" in callee or "Result::<T, E>" in callee):
            o = strip_refs(args[0])
            if o[0] == "obj":
                o = o[1]
            if o[0] == "agg" and o[2] in ("Some", "None", "Ok", "Err"):
                yes = {"is_some": "Some", "is_none": "None", "is_ok": "Ok", "is_err": "Err"}[callee.rsplit("::", 1)[-1]]
                return ret(("const", o[2] == yes))
        if generic == "std::ops::Try::branch" and len(args) == 1:
            o = strip_refs(args[0])
            if o[0] == "agg" and o[2] == "Some":
                return ret(("agg", "std::ops::ControlFlow", "Continue", o[3]))
            if o[0] == "agg" and o[2] == "None":
                return ret(("agg", "std::ops::ControlFlow", "Break", (("agg", "std::option::Option", "None", ()),)))
            return ret(("call", "<std::option::Option<T> as std::ops::Try>::branch", (o,), None))
        if generic == "std::ops::FromResidual::from_residual":
            return ret(("agg", "std::option::Option", "None", ()))
        # crate-local functions executed inline
        if self.facts.has_body(callee) and self.inline(callee) and depth < 5:
            cb = self.body_of(callee)
            if cb.arg_count == len(args):
                outs = []
                env = {i + 1: a for i, a in enumerate(args)}
                for kind, ebb, st2, cfid in self._run_fn(cb, 0, env, st.clone(), set(), set(), None, depth + 1):
                    if kind != "return":
                        continue
                    val = st2.store[cfid].get(0, ("unit",))
                    self.write(st2, fid, dest["local"], dest["proj"], val, loc)
                    outs.append(st2)
                return outs
        fe.st = st
        e = Exprs.call_expr(fe, t, None)
        if e[0] == "call":
            e = ("call", e[1], e[2], None if e[3] is None else loc)
        if e[0] != "call":
            return ret(fold_ground_eq(e))
        # identity of the object behind each `&mut local` argument: the call that created it (so that a
        # rule can follow one object through moves between locals)
        ids = tuple(_ident(self.read_addr(st, a)) if a[0] == "addr" else None for a in args)
        st.events.append(("call", loc, callee, args, e, dest["local"] if not dest["proj"] else None, ids))
        # a callee that gets `&mut local` may change it: forget field overlays unless the callee is one
        # of the successor-construction helpers (whose effect is modelled by rules/successor.py)
        for a in args:
            if a[0] == "addr" and callee not in KEEP_OVERLAY:
                cur = self.read_addr(st, a)
                if not (generic.endswith("::push") or generic.endswith("::clone")):
                    self.write(st, a[1], a[2], [_thaw(x) for x in a[3]], ("call", "mutated-by:" + callee, (cur,), loc), loc)
        return ret(e)


LAZY = {"std::iter::Iterator::map": "map", "std::iter::Iterator::flat_map": "flat_map",
        "std::iter::Iterator::filter_map": "filter_map", "std::iter::Iterator::filter": "filter"}


def _generic(self, it, st, depth):
    """Generic elements of an iterator value: yields (element expression, state).  A constant range
    contributes a generator symbol ('sym', 'gen#id:lo:hi') (see gen_range); `map` applies the closure, `flat_map`
    takes a generic element of the closure's result, `filter_map` / `filter` keep the paths of the
    closure that answer Some / true (recording the decision as a path condition when symbolic)."""
    it = strip_refs(it)
    if it[0] == "giter":
        it = it[1]
    if it[0] == "agg" and it[1].endswith("ops::Range") and len(it[3]) == 2 and all(x[0] == "const" for x in it[3]):
        self.ngen = getattr(self, "ngen", 0) + 1
        yield ("sym", "gen#%d:%d:%d" % (self.ngen, it[3][0][1], it[3][1][1])), st
        return
    if it[0] != "lazy":
        raise Unsupported("generic element of %r" % (it[:2],))
    kind, inner, fval = it[1], it[2], it[3]
    for x, st1 in _generic(self, inner, st, depth):
        arg = ("ref", x) if kind == "filter" else x
        for r, st2 in self._call_closure(fval, [arg], st1, depth):
            if kind == "map":
                yield r, st2
            elif kind == "flat_map":
                yield from _generic(self, r, st2, depth)
            elif kind == "filter_map":
                o = strip_refs(r)
                if o[0] == "agg" and o[2] == "Some":
                    yield o[3][0], st2
                elif o[0] == "agg" and o[2] == "None":
                    continue
                else:
                    d = ("discr", o, "std::option::Option")
                    st2.conds.append((d, [1], False, [0, 1]))
                    st2.events.append(("cond", None, (d, [1], False, [0, 1])))
                    yield mk_field(("downcast", o, "Some"), "0"), st2
            else:
                if r == ("const", True):
                    yield x, st2
                elif r == ("const", False):
                    continue
                else:
                    st2.conds.append((r, [1], False, [0, 1]))
                    st2.events.append(("cond", None, (r, [1], False, [0, 1])))
                    yield x, st2


def _call_closure(self, fval, args, st, depth):
    """Run a closure value on argument values: yields (result, state) per returning path."""
    fval = strip_refs(fval)
    if not (fval[0] == "agg" and fval[1] == "closure" and self.facts.has_body(fval[2])) or depth > 6:
        raise Unsupported("call of a non-closure value")
    cb = self.body_of(fval[2])
    if cb.arg_count != 1 + len(args):
        raise Unsupported("closure arity")
    env = {1: ("ref", fval) if cb.local_ty(1).startswith("&") else fval}
    for i, a in enumerate(args):
        env[2 + i] = a
    for kind, ebb, st2, cfid in self._run_fn(cb, 0, env, st.clone(), set(), set(), None, depth + 1):
        if kind == "return":
            yield st2.store[cfid].get(0, ("unit",)), st2


SymEx._generic = _generic
SymEx._call_closure = _call_closure


def _ident(v):
    """Identity of an object value: (creating callee, creation location), through field overlays."""
    while v is not None and v[0] == "obj":
        v = v[1]
    if v is not None and v[0] == "call" and v[3] is not None:
        return (v[1], v[3])
    return None


def _freeze(el, fe):
    if el["k"] == "index":
        return ("index", fe.local(el["local"]))
    return tuple(sorted((k, v) for k, v in el.items() if k in ("k", "i", "name", "variant", "offset", "from_end", "local")))


def _thaw(el):
    if isinstance(el, dict):
        return el
    if el and el[0] == "index":
        raise Unsupported("indexed place behind a pointer")
    return dict(el)


def _table_iter(src):
    """Iterator over a constant table: src is (a reference to) an array aggregate, or already one."""
    if src is None:
        return None
    v = strip_refs(src)
    if v[0] == "iter":
        return v
    if v[0] == "agg" and v[1] == "array":
        return ("iter", tuple(v[3]), 0) if src[0] in ("ref", "deref") else ("iter", tuple(v[3]), 0, "byval")
    if v[0] == "agg" and v[1].endswith("ops::Range"):
        return v
    return None


# ------------------------------------------------------------------------------------------------
def carried_locals(body, header, blocks):
    """Locals assigned (or mutably borrowed) inside the loop whose value at the header may also come
    from outside it."""
    rd = body.reaching()
    out = set()
    for l in range(len(body.locals)):
        if not any(loc[0] in blocks for loc, k in rd.all_sites(l)):
            continue
        is_arg = 1 <= l <= body.arg_count
        if any((k == "entry" and is_arg) or (k != "entry" and dloc[0] not in blocks) for dloc, k in rd.defs(l, (header, 0))):
            out.add(l)
    return out


def summarise_loop(facts, body, ex, header, blocks, stop=(), inline=None, init_env=None):
    """One symbolic iteration of the natural loop (header, blocks).
    Returns (carried, paths): paths end 'stop' at the header (a continue path: path.env holds the
    carried update in terms of ('sym', l)), or at a `stop` block / return (exit paths).  Locals
    that the loop does not assign evaluate to their (loop-invariant) expression at the header."""
    carried = carried_locals(body, header, blocks)
    assigned = set()
    for bb in blocks:
        for s in body.stmts(bb):
            if s["k"] == "assign":
                assigned.add(s["place"]["local"])
        t = body.term(bb)
        if t["k"] == "call":
            assigned.add(t["dest"]["local"])
    env = {l: ("sym", l) for l in carried}
    # a carried iterator whose initial value is a constant range or a lazy chain over one is 'that
    # iterator in some state': `next` on it yields a generic element
    rd = body.reaching()
    for l in carried:
        ds = [(dloc, k) for dloc, k in rd.defs(l, (header, 0)) if k != "borrow" and (k == "entry" or dloc[0] not in blocks)]
        if len(ds) == 1 and ds[0][1] == "whole":
            v = _lazy_of_expr(ex._def_expr(l, ds[0][0]))
            if v is not None:
                env[l] = ("giter", v)
    env.update(init_env or {})

    def fallback(l):
        if l in assigned and l not in carried:
            return None
        return ex.local(l, (header, 0))
    sx = SymEx(facts, inline=inline)
    back = {(a, header) for a in body.pred.get(header, []) if a in blocks}
    paths = sx.run(body, header, env, stop=set(stop), fallback=fallback, stop_edges=back)
    return carried, paths


def _skeleton(e, name):
    """Aggregate skeleton of an initial value: constructors kept, everything else a state symbol
    ('sym', name) with name = '<local>' or '<local>/<i>/<j>..' (child indices)."""
    e0 = strip_refs(e) if e is not None else None
    if e0 is not None and e0[0] == "agg" and e0[1] not in ("closure", "array") and e0[3] and not e0[1].endswith("ops::Range"):
        return (e0[0], e0[1], e0[2], tuple(_skeleton(x, "%s/%d" % (name, i)) for i, x in enumerate(e0[3])))
    return ("sym", name)


def _same_shape(skel, val):
    """Does the value have the skeleton's constructors (so the shape is preserved by the iteration)?
    Returns the name of the outermost skeleton node that is not matched, or None."""
    if skel[0] == "sym":
        return None
    v = strip_refs(val) if val is not None else None
    if v is None or v[0] != "agg" or v[1] != skel[1] or v[2] != skel[2] or len(v[3]) != len(skel[3]):
        return "MISMATCH"
    for i, (a, c) in enumerate(zip(skel[3], v[3])):
        r = _same_shape(a, c)
        if r is not None:
            return r if r != "MISMATCH" else ("MISMATCH", i)
    return None


def state_path(name):
    """State symbol name -> (local, (child indices...))."""
    if isinstance(name, int):
        return name, ()
    parts = str(name).split("/")
    return int(parts[0]), tuple(int(x) for x in parts[1:])


def descend(val, path):
    """Component of a value along child indices (None when the value has not that shape)."""
    for i in path:
        val = strip_refs(val) if val is not None else None
        if val is None or val[0] != "agg" or i >= len(val[3]):
            return None
        val = val[3][i]
    return val


def summarise_loop_state(facts, body, ex, header, blocks, stop=(), inline=None):
    """summarise_loop with the loop-carried state split into components: a carried variable that
    enters the loop as an aggregate (`Some((r0, c0))`, a tuple, a struct) and is rebuilt with the same
    constructors by every continuing path has that shape at every iteration (induction), so it is
    represented as that skeleton over one state symbol per leaf and its discriminants fold.
    Returns (state, paths); state: {symbol name: (initial expression or None)}; the value of a state
    symbol after a continuing path p is descend(p.env[local], path) with (local, path) =
    state_path(name)."""
    carried = carried_locals(body, header, blocks)
    rd = body.reaching()
    inits = {}
    for l in carried:
        ds = [(dloc, k) for dloc, k in rd.defs(l, (header, 0)) if k != "borrow" and (k == "entry" or dloc[0] not in blocks)]
        inits[l] = ex._def_expr(l, ds[0][0]) if len(ds) == 1 and ds[0][1] == "whole" else None
    flat = set()
    paths = []
    skels = {}
    for _ in range(4):
        skels = {l: (("sym", l) if l in flat else _skeleton(inits[l], str(l))) for l in carried}
        skels = {l: (("sym", l) if v == ("sym", str(l)) else v) for l, v in skels.items()}
        _, paths = summarise_loop(facts, body, ex, header, blocks, stop=stop, inline=inline, init_env={l: v for l, v in skels.items() if v[0] != "sym"})
        cont = [p for p in paths if p.end == "stop" and p.end_bb == header]
        bad = {l for l, sk in skels.items() if sk[0] != "sym" and any(_same_shape(sk, p.env.get(l)) is not None for p in cont)}
        if not bad:
            break
        flat |= bad
    state = {}

    def leaves(sk, init):
        if sk[0] == "sym":
            state[sk[1]] = init
            return
        i0 = strip_refs(init) if init is not None else None
        for i, c in enumerate(sk[3]):
            leaves(c, i0[3][i] if i0 is not None and i0[0] == "agg" and i < len(i0[3]) else None)
    for l in carried:
        leaves(skels[l], inits[l])
    return state, paths


def ground(e):
    """Is the value fully concrete (constants and aggregates of concrete values)?"""
    e = strip_refs(e)
    if e[0] in ("const", "char", "str", "unit"):
        return True
    return e[0] == "agg" and e[1] != "closure" and all(ground(x) for x in e[3])


def _unref(e):
    e = strip_refs(e)
    if e[0] == "agg":
        return (e[0], e[1], e[2], tuple(_unref(x) for x in e[3]))
    return e


def fold_ground_eq(e):
    """`x == y` / `x != y` on two fully concrete values of one type is structural equality (the
    derived PartialEq; that the crate's impls are the derived ones is R0.1's derived-eq obligation)."""
    if e[0] == "bin" and e[1] in ("Eq", "Ne") and ground(e[2]) and ground(e[3]):
        x, y = _unref(e[2]), _unref(e[3])
        if x[0] == y[0] == "agg" and x[1] != y[1]:
            return e
        return ("const", (x == y) == (e[1] == "Eq"))
    return e


def gen_range(e):
    """('sym', 'gen#id:lo:hi') -> (id, lo, hi); None for anything else."""
    if isinstance(e, tuple) and len(e) == 2 and e[0] == "sym" and isinstance(e[1], str) and e[1].startswith("gen#"):
        i, lo, hi = e[1][4:].split(":")
        return int(i), int(lo), int(hi)
    return None


def _lazy_of_expr(e):
    """Value-numbered expression of an iterator -> the executor's iterator value, if it is a constant
    range or a chain of lazy adaptors with closure aggregates over one."""
    e = strip_refs(e)
    if e[0] == "agg" and e[1].endswith("ops::Range") and len(e[3]) == 2 and all(x[0] == "const" for x in e[3]):
        return e
    if e[0] == "call" and e[1].endswith("::into_iter") and len(e[2]) == 1:
        return _lazy_of_expr(e[2][0])
    if e[0] == "call" and len(e[2]) == 2:
        kind = next((k for n, k in LAZY.items() if e[1] == n or e[1].endswith("::" + n.rsplit("::", 1)[-1]) and "iter" in e[1]), None)
        f = strip_refs(e[2][1])
        if kind and f[0] == "agg" and f[1] == "closure":
            inner = _lazy_of_expr(e[2][0])
            if inner is not None:
                return ("lazy", kind, inner, f)
    return None


# ---- normal forms shared by the loop rules ------------------------------------------------------
_INTS = ("i8", "i16", "i32", "i64", "i128", "isize", "u8", "u16", "u32", "u64", "u128", "usize")


def erase(e):
    """The expression without reference / dereference wrappers and integer width casts (anywhere in
    the tree): `*(&x)`, `x as usize`, `x` are one value for the small board coordinates the rules
    speak about."""
    if not isinstance(e, tuple) or not e or not isinstance(e[0], str):
        return e
    k = e[0]
    if k in ("deref", "ref"):
        return erase(e[1])
    if k == "cast" and e[1] in _INTS:
        return erase(e[2])
    if k in ("const", "sym", "arg", "char", "str", "float", "opaque", "cname", "fn", "static"):
        return e
    if k in ("var", "mem"):
        return e
    out = [k]
    for x in e[1:]:
        if isinstance(x, tuple) and x and isinstance(x[0], str):
            out.append(erase(x))
        elif isinstance(x, tuple):
            out.append(tuple(erase(y) for y in x))
        else:
            out.append(x)
    return tuple(out)


def elinear(e):
    """Affine form of `e` over erased terms: (frozenset of (term, coeff), const) or None."""
    from .linear import linear
    le = linear(erase(e))
    if le is None:
        return None
    terms = {}
    for t, c in le[0].items():
        t = erase(t)
        terms[t] = terms.get(t, 0) + c
    return (frozenset((t, c) for t, c in terms.items() if c), le[1])


def mentions_sym(e):
    from .expr import subexprs
    return any(x[0] == "sym" for x in subexprs(e))
