"""MIR-level inlining of crate-local helper functions on the JSON fact base.

Why: a rule is written against the functions that exist in the tree it was confirmed on (the
reference vocabulary, rules/known_functions.txt).  A behaviour-preserving refactor that extracts a
helper (`wait_for_best_move`, `sliding_moves`, `make_castling_move`, ...) moves the constructs a
rule looks at into a function the rule has never heard of.  Inlining every call to a function that
is *not* in the vocabulary restores the shape the rule knows, with no effect on the reference tree
(where every function is in the vocabulary).  Bounded: no recursion, depth <= 4, size <= 400 blocks.

The transformation is the textbook one: callee locals and blocks are appended with an offset,
arguments become assignments to the callee's parameter locals, `return` becomes an assignment of
the callee's return place to the call destination followed by a goto to the call's target.  Cleanup
(unwind) blocks of the callee are copied too but stay unreachable from the normal-completion CFG the
analyses use."""
import copy

MAX_DEPTH = 4
MAX_BLOCKS = 400


def _shift(x, loff, boff):
    """Deep copy of a MIR JSON fragment with every local and block id shifted."""
    if isinstance(x, dict):
        out = {}
        for k, v in x.items():
            if k == "local" and isinstance(v, int):
                out[k] = v + loff
            elif k in ("target", "otherwise", "unwind") and isinstance(v, int):
                out[k] = v + boff
            elif k == "cases":
                out[k] = [[val, tg + boff] for val, tg in v]
            elif k == "succ" and isinstance(v, list):
                out[k] = [s + boff for s in v]
            elif k == "span":
                out[k] = v
            else:
                out[k] = _shift(v, loff, boff)
        return out
    if isinstance(x, list):
        return [_shift(v, loff, boff) for v in x]
    return x


def _callee(t):
    return t.get("resolved") or t.get("callee")


def inline_body(bodies, d, should_inline, stack=(), depth=0):
    """Return (new body dict, [names inlined]) with qualifying calls spliced in; `d` itself is not
    modified.  `should_inline(name)` decides per callee."""
    todo = []
    for i, blk in enumerate(d["blocks"]):
        t = blk["term"]
        if t["k"] != "call" or blk["cleanup"]:
            continue
        c = _callee(t)
        if not c or c not in bodies or c in stack or c == d["name"] or not should_inline(c):
            continue
        if t.get("closure_args"):
            continue
        todo.append((i, c))
    if not todo or depth >= MAX_DEPTH:
        return d, []
    nd = {k: v for k, v in d.items() if k not in ("blocks", "locals", "debug")}
    nd["blocks"] = copy.deepcopy(d["blocks"])
    nd["locals"] = list(d["locals"])
    nd["debug"] = list(d["debug"])
    done = []
    for i, c in todo:
        cd, sub = inline_body(bodies, bodies[c], should_inline, stack + (d["name"],), depth + 1)
        if len(nd["blocks"]) + len(cd["blocks"]) > MAX_BLOCKS:
            continue
        t = nd["blocks"][i]["term"]
        if len(t["args"]) != cd["arg_count"]:
            continue
        loff = len(nd["locals"])
        boff = len(nd["blocks"])
        nd["locals"] += [dict(l) for l in cd["locals"]]
        for dbg in cd["debug"]:
            e = _shift(dbg, loff, boff)
            e["arg"] = None
            e["inlined_from"] = c
            nd["debug"].append(e)
        span = t["span"]
        # parameter passing
        for j, a in enumerate(t["args"]):
            ty = cd["locals"][j + 1]["ty"]
            nd["blocks"][i]["stmts"].append({"k": "assign", "place": {"local": loff + j + 1, "proj": [], "ty": ty},
                                             "rv": {"k": "use", "op": a}, "span": span, "inline_arg": c})
        nd["blocks"][i]["term"] = {"k": "goto", "target": boff, "span": span, "inlined_call": c}
        ret_ty = cd["locals"][0]["ty"]
        for blk in cd["blocks"]:
            nb = _shift(blk, loff, boff)
            if nb["term"]["k"] == "return" and not nb["cleanup"]:
                nb["stmts"].append({"k": "assign", "place": t["dest"], "rv": {"k": "use", "op": {"k": "move", "place": {"local": loff, "proj": [], "ty": ret_ty}}},
                                    "span": nb["term"]["span"], "inline_ret": c})
                if t.get("target") is not None:
                    nb["term"] = {"k": "goto", "target": t["target"], "span": nb["term"]["span"]}
                else:
                    nb["term"] = {"k": "unreachable", "span": nb["term"]["span"]}
            nd["blocks"].append(nb)
        _thread_returns(nd, boff, len(cd["blocks"]), t, loff, ret_ty)
        done.append(c)
        done += sub
    nd["inlined"] = sorted(set(done))
    return nd, done


def _thread_returns(nd, boff, nblk, call_term, loff, ret_ty):
    """Jump threading across an inlined call that returns `Option`/`Result`: a callee path that stores
    a literal variant in the return place and the caller's `match` on that value are connected
    directly, so the infeasible combination (the `None` path entering the `Some` arm) is not a CFG path.
    The return block and the caller's dispatch block are duplicated per threaded predecessor; the
    originals stay for everything else."""
    if not (ret_ty.startswith("std::option::Option<") or ret_ty.startswith("std::result::Result<")):
        return
    T = call_term.get("target")
    dest = call_term["dest"]
    if T is None or dest["proj"]:
        return
    tblk = nd["blocks"][T]
    tt = tblk["term"]
    if tt["k"] != "switch" or tt["discr"].get("k") not in ("copy", "move") or tt["discr"]["place"]["proj"]:
        return
    dl = tt["discr"]["place"]["local"]
    # the dispatch block must compute the discriminant of (a copy of) the call's destination
    src = {dest["local"]}
    okd = False
    for st in tblk["stmts"]:
        if st["k"] != "assign" or st["place"]["proj"]:
            continue
        rv = st["rv"]
        if rv["k"] == "use" and rv["op"].get("k") in ("copy", "move") and not rv["op"]["place"]["proj"] and rv["op"]["place"]["local"] in src:
            src.add(st["place"]["local"])
        if rv["k"] == "discr" and not rv["place"]["proj"] and rv["place"]["local"] in src and st["place"]["local"] == dl:
            okd = True
    if not okd:
        return
    # T must be entered only from the inlined callee's return blocks
    rng = range(boff, boff + nblk)
    for i, blk in enumerate(nd["blocks"]):
        if i in rng or blk["cleanup"]:
            continue
        tm = blk["term"]
        tg = [tm.get("target"), tm.get("otherwise")] + [x for _, x in tm.get("cases", [])]
        if T in tg:
            return
    ret_local = loff
    ret_blocks = [i for i in rng if nd["blocks"][i]["term"]["k"] == "goto" and nd["blocks"][i]["term"].get("target") == T
                  and any(st.get("inline_ret") for st in nd["blocks"][i]["stmts"])]
    for rb in ret_blocks:
        for p in list(rng):
            pt = nd["blocks"][p]["term"]
            if pt["k"] != "goto" or pt.get("target") != rb or nd["blocks"][p]["cleanup"]:
                continue
            vi = None
            for st in nd["blocks"][p]["stmts"]:
                if st["k"] == "assign" and st["place"]["local"] == ret_local and not st["place"]["proj"]:
                    rv = st["rv"]
                    vi = rv.get("vi") if rv["k"] == "aggregate" and rv.get("agg") == "adt" else None
            # the return block itself must not reassign the return place
            if vi is None or any(st["k"] == "assign" and st["place"]["local"] == ret_local and not st.get("inline_ret") for st in nd["blocks"][rb]["stmts"]):
                continue
            target = tt["otherwise"]
            for v, tg in tt["cases"]:
                if v == vi:
                    target = tg
            nb = {"cleanup": False, "stmts": copy.deepcopy(nd["blocks"][rb]["stmts"]) + copy.deepcopy(tblk["stmts"]),
                  "term": {"k": "goto", "target": target, "span": tt["span"], "threaded": True}}
            nd["blocks"].append(nb)
            pt["target"] = len(nd["blocks"]) - 1
