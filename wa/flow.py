"""Forward may-analysis of a finite automaton over the normal CFG (typestate / pairing engine)."""
from collections import defaultdict, deque


def forward_states(body, start_loc, init_states, step, edge_step=None, restart_kills=True):
    """Run an automaton forward from just *after* `start_loc`.

    step(loc, state)            -> iterable of successor states for the statement/terminator at loc
    edge_step(bb, succ, state)  -> iterable of states carried along the CFG edge bb -> succ
    Returns (before, at_return): before[loc] = set of states just before loc;
    at_return = {return block: set of states at its `return`}.
    If control comes back to start_loc (a loop around the creation site) the states are dropped
    there when restart_kills is set: the tracked object is created afresh."""
    before = defaultdict(set)
    at_return = defaultdict(set)
    sbb, si = start_loc
    IN = defaultdict(set)
    work = deque()

    def run_block(bb, states, from_idx):
        n = len(body.stmts(bb))
        cur = set(states)
        for i in range(from_idx, n + 1):
            loc = (bb, i)
            if restart_kills and loc == start_loc:
                return  # re-entered the creation site: the tracked object is created afresh
            if not cur:
                return
            before[loc] |= cur
            nxt = set()
            for s in cur:
                nxt.update(step(loc, s))
            cur = nxt
        t = body.term(bb)
        if t["k"] == "return":
            at_return[bb] |= cur
            return
        for sc in body.succ.get(bb, []):
            out = set()
            if edge_step is None:
                out = cur
            else:
                for s in cur:
                    out.update(edge_step(bb, sc, s))
            new = out - IN[sc]
            if new:
                IN[sc] |= new
                if sc not in work:
                    work.append(sc)

    run_block(sbb, set(init_states), si + 1)
    while work:
        bb = work.popleft()
        run_block(bb, IN[bb], 0)
    return before, at_return
