"""Symbolic expressions (value numbering) over a Body.

Expressions are hashable nested tuples:
  ('const', v)  ('char', c)  ('str', s)  ('unit',)  ('float', f)
  ('cname', def, promoted)         non-evaluated named constant
  ('fn', path)
  ('arg', i)                        parameter i, never redefined
  ('var', local, defs)              a local with several reaching definitions (version = defs)
  ('mem', local, defs)              pointee of a `&mut` local, versioned by reaching writes
  ('field', base, name) ('index', base, idx) ('cidx', base, n) ('downcast', base, variant)
  ('deref', base) ('ref', base)
  ('bin', op, a, b) ('un', op, a) ('cast', ty, a) ('discr', a, ty) ('len', a)
  ('agg', adt|'tuple'|'array'|'closure', variant, (fields...))
  ('call', callee, (args...), loc)  loc is None for callees in PURE
  ('ovf', ('bin', op, a, b))        overflow flag of a checked operation
  ('opaque', text)
"""
from .mir import alias_of, fold_binop, scalar_value, INT_RANGES, callee_of

# callees whose result is a function of the arguments only (value-numbered without location)
PURE = {
    "board::Piece::pawn", "board::Piece::knight", "board::Piece::bishop", "board::Piece::rook",
    "board::Piece::queen", "board::Piece::king", "board::PieceColor::opposite",
    "board::Piece::index", "board::PieceKind::index", "board::PieceKind::alg",
    "board::Square::is_empty", "board::Square::is_color", "board::Square::is_empty_or_color",
    "zobrist::ZobristHasher::get_val_for_piece", "zobrist::ZobristHasher::get_val_for_castling",
    "zobrist::ZobristHasher::get_val_for_en_passant", "zobrist::ZobristHasher::get_black_to_move_val",
    "evaluation::mg_table", "evaluation::eg_table", "evaluation::mg_piece_val",
    "evaluation::eg_piece_val", "evaluation::game_phase_val",
    "core::num::<impl i8>::abs", "core::num::<impl i32>::abs", "std::cmp::max", "std::cmp::min",
    "core::str::<impl str>::len", "core::char::methods::<impl char>::is_digit",
    "core::char::methods::<impl char>::to_digit", "core::char::methods::<impl char>::is_whitespace",
    "std::f64::<impl f64>::round", "core::f64::<impl f64>::round",
    "<board::Square as std::cmp::PartialEq<board::Piece>>::eq",
    "std::option::Option::<T>::is_some", "std::option::Option::<T>::is_none",
    "std::vec::Vec::<T, A>::len", "std::vec::Vec::<T, A>::is_empty",
}

COPY_CLONES = (
    "<board::Point as std::clone::Clone>::clone", "<board::Piece as std::clone::Clone>::clone",
    "<board::PieceColor as std::clone::Clone>::clone", "<board::PieceKind as std::clone::Clone>::clone",
    "<board::Square as std::clone::Clone>::clone",
    "<move_generation::MoveGenerationMode as std::clone::Clone>::clone",
)


def from_value(v):
    """Python constant value (from ConstEval) -> expression."""
    if isinstance(v, bool):
        return ("const", v)
    if isinstance(v, int):
        return ("const", v)
    if isinstance(v, float):
        return ("float", v)
    if isinstance(v, str):
        return ("char", v) if False else ("str", v)
    if isinstance(v, list):
        return ("agg", "array", None, tuple(from_value(x) for x in v))
    if isinstance(v, tuple):
        if v and v[0] == "adt":
            return ("agg", v[1], v[2], tuple(from_value(x) for x in v[3]))
        if v and v[0] in ("opaque", "uninit", "fn"):
            return ("opaque", str(v))
        if v == ():
            return ("unit",)
        return ("agg", "tuple", None, tuple(from_value(x) for x in v))
    return ("opaque", repr(v))


def strip_refs(e):
    while e[0] in ("ref", "deref"):
        e = e[1]
    return e


def root_local(e):
    """The local a place-like expression is rooted in (through refs, derefs, fields, indices)."""
    while True:
        k = e[0]
        if k in ("ref", "deref", "field", "index", "cidx", "downcast"):
            e = e[1]
        elif k in ("var", "mem"):
            return e[1]
        elif k == "arg":
            return e[1]
        else:
            return None


def mk_ref(e):
    if e[0] == "deref":
        return e[1]
    return ("ref", e)


def mk_deref(e):
    if e[0] == "ref":
        return e[1]
    return ("deref", e)


def wrap(ty, v):
    r = INT_RANGES.get(ty)
    if r is None or not isinstance(v, int) or isinstance(v, bool):
        return v
    lo, hi = r
    m = hi - lo + 1
    return (v - lo) % m + lo


def mk_bin(op, a, b):
    if a[0] == "const" and b[0] == "const":
        r = fold_binop(op, a[1], b[1])
        if r is not None and not isinstance(r, tuple):
            return ("const", r)
    return ("bin", op, a, b)


def mk_field(base, name):
    # checked arithmetic: (a op b).0 is the result, .1 the overflow flag
    if base[0] == "bin" and base[1].endswith("WithOverflow"):
        if name == "0":
            return mk_bin(base[1][: -len("WithOverflow")], base[2], base[3])
        return ("ovf", base)
    if base[0] == "agg" and base[1] == "tuple":
        try:
            return base[3][int(name)]
        except (ValueError, IndexError):
            pass
    if base[0] == "agg" and base[1] not in ("tuple", "array", "closure"):
        # struct literal: need field order -> resolved by the caller through field index
        pass
    return ("field", base, name)


class Exprs:
    def __init__(self, body, keep=None):
        """keep: locals that are never expanded to their defining expression (they stay symbolic
        ('var', l, version) so that rules can talk about 'the current value of alpha')."""
        self.keep = set(keep or ())
        self.b = body
        self.facts = body.facts
        self.rd = body.reaching()
        self._memo = {}
        self._busy = set()

    # ---- operands / places -----------------------------------------------------------------
    def const(self, o):
        if "val" in o:
            v = scalar_value(o)
            if o["ty"] == "char":
                return ("char", v)
            if isinstance(v, float):
                return ("float", v)
            return ("const", v)
        if "str" in o:
            return ("str", o["str"])
        if "fn" in o:
            return ("fn", o["fn"])
        if o["ty"] == "()":
            return ("unit",)
        if "promoted" in o:
            try:
                return mk_ref_value(self.facts.promoted_value(o["def"], o["promoted"]), o["ty"])
            except Exception:
                return ("cname", o["def"], o["promoted"])
        if "def" in o:
            if self.facts.has_const(o["def"]):
                v = self.facts.const_value(o["def"])
                e = from_value(v)
                if e[0] != "opaque":
                    return e
            return ("cname", o["def"], None)
        if "static" in o:
            return ("static", o["static"])
        return ("opaque", o.get("text", "?"))

    def operand(self, o, loc):
        k = o["k"]
        if k == "const":
            return self.const(o)
        if k in ("copy", "move"):
            return self.place(o["place"], loc)
        return ("opaque", str(o))

    def place(self, p, loc):
        proj = p["proj"]
        l = p["local"]
        if proj and proj[0]["k"] == "deref" and self.b.local_ty(l).startswith("&mut "):
            # a pointer derived from another one (`let p = &mut (*self).flag`) names a place behind the
            # pointer it was derived from: canonicalise, so that `*p` and `self.flag` are one expression
            r, mode, pr0 = alias_of(self.b, l)
            if mode == "ptrref" and r != l and self.b.local_ty(r).startswith("&mut "):
                e = ("mem", r, self._version(("mem", r), loc))
                proj = list(pr0) + list(proj[1:])
            else:
                e = ("mem", l, self._version(("mem", l), loc))
                # keep which pointer it is when the pointer itself is a plain parameter
                proj = proj[1:]
        else:
            e = self.local(l, loc)
        for el in proj:
            k = el["k"]
            if k == "deref":
                e = mk_deref(e)
            elif k == "field":
                e = self._field(e, el)
            elif k == "index":
                e = ("index", e, self.local(el["local"], loc))
            elif k == "cindex":
                e = ("cidx", e, -el["offset"] if el["from_end"] else el["offset"])
            elif k == "downcast":
                e = self._downcast(e, el["variant"])
            else:
                e = ("opaque", "proj")
        return e

    def _downcast(self, e, variant):
        """`?`: `match Try::branch(r) { Continue(v) => v, Break(..) => return .. }` reads the Ok payload
        of r.  A merged variable all of whose definitions are aggregate literals, downcast to variant V,
        is the one literal built as V (a downcast to V can only read a value that was built as V)."""
        x = e
        if x[0] == "call" and x[1].endswith("as std::ops::Try>::branch") and len(x[2]) == 1 and variant == "Continue":
            return self._downcast(x[2][0], "Ok" if "Result" in x[1] else "Some")
        base = strip_refs(x)
        if base[0] == "var" and len(base[2]) >= 2 and all(k == "whole" for _, k in base[2]) and base[1] not in self.keep:
            lits = []
            for dloc, _k in base[2]:
                key = ("lit", base[1], dloc)
                if key in self._busy:
                    return ("downcast", e, variant)
                self._busy.add(key)
                try:
                    de = strip_refs(self._def_expr(base[1], dloc))
                finally:
                    self._busy.discard(key)
                # follow one plain copy of another merged variable (the return place of an inlined helper)
                if de[0] == "var" and all(k2 == "whole" for _, k2 in de[2]):
                    sub = [strip_refs(self._def_expr(de[1], d2)) for d2, _k2 in de[2]]
                else:
                    sub = [de]
                for y in sub:
                    if not (y[0] == "agg" and y[2]):
                        return ("downcast", e, variant)
                    lits.append(y)
            hit = [y for y in lits if y[2] == variant]
            if len(hit) == 1:
                return ("downcast", hit[0], variant)
        return ("downcast", e, variant)

    def _field(self, e, el):
        name = el["name"]
        b = e
        if b[0] == "named":
            b = b[2]
        if b[0] == "downcast" and b[1][0] == "agg" and b[1][2] == b[2]:
            b = b[1]
        if b[0] == "downcast" and b[1][0] == "named" and b[1][2][0] == "agg" and b[1][2][2] == b[2]:
            b = b[1][2]
        if b[0] == "agg" and b[1] not in ("array",):
            try:
                return b[3][el["i"]]
            except IndexError:
                pass
        return mk_field(e, name)

    def _version(self, key, loc):
        return self.rd.defs(key, loc)

    def local(self, l, loc):
        defs = self.rd.defs(l, loc)
        if l in self.keep:
            return ("var", l, defs)
        if len(defs) == 1:
            (dloc, kind), = defs
            if kind == "entry":
                if 1 <= l <= self.b.arg_count:
                    return ("arg", l)
                return ("var", l, defs)
            if kind == "whole":
                key = (l, dloc)
                if key in self._memo:
                    return self._memo[key]
                if key in self._busy:
                    return ("var", l, defs)
                self._busy.add(key)
                try:
                    e = self._def_expr(l, dloc)
                finally:
                    self._busy.discard(key)
                self._memo[key] = e
                return e
        return ("var", l, defs)

    def _def_expr(self, l, dloc):
        bb, i = dloc
        st = self.b.stmts(bb)
        if i < len(st):
            return self.rvalue(st[i]["rv"], dloc)
        t = self.b.term(bb)
        if t["k"] == "call":
            return self.call_expr(t, dloc)
        return ("opaque", "def")

    def call_expr(self, t, loc):
        callee = callee_of(t) or "?"
        args = tuple(self.operand(a, loc) for a in t["args"])
        if callee in COPY_CLONES and len(args) == 1:
            return mk_deref(args[0])
        if callee.endswith("as std::cmp::PartialEq>::eq") and len(args) == 2:
            return mk_bin("Eq", mk_deref(args[0]), mk_deref(args[1]))
        if (callee.endswith("as std::cmp::PartialEq>::ne") or callee == "std::cmp::PartialEq::ne") and len(args) == 2:
            # a derived PartialEq does not override `ne`: `a != b` resolves to the trait's default method
            return mk_bin("Ne", mk_deref(args[0]), mk_deref(args[1]))
        if len(args) == 2 and (callee.endswith("PartialEq<&B> for &A>::eq") or callee.endswith("PartialEq for str>::eq")):
            return mk_bin("Eq", strip_refs(args[0]), strip_refs(args[1]))
        if len(args) == 2 and (callee.endswith("PartialEq<&B> for &A>::ne") or callee.endswith("PartialEq for str>::ne")):
            return mk_bin("Ne", strip_refs(args[0]), strip_refs(args[1]))
        if callee in ("std::mem::replace", "core::mem::replace") and len(args) == 2 and args[0][0] == "ref":
            # `mem::replace(&mut P, v)` hands back what P held before the call
            return mk_deref(args[0])
        if callee == "<board::Square as std::convert::From<board::Piece>>::from":
            return ("agg", "board::Square", "Full", args)
        if t.get("callee") == "std::convert::Into::into" and callee.endswith("::into"):
            # blanket impl: T: From<U>  => resolved to <T as Into>::into; look at the generic args
            ga = t.get("generic_args", [])
            if ga == ["board::Piece", "board::Square"]:
                return ("agg", "board::Square", "Full", args)
        import re as _re
        m = _re.match(r"^<(i8|i16|i32|i64|isize|u8|u16|u32|u64|usize) as std::ops::(Add|Sub|Mul)<&?\1>>::(add|sub|mul)$", callee)
        if m and len(args) == 2:
            return mk_bin(m.group(2), strip_refs(args[0]) if args[0][0] == "ref" else args[0], mk_deref(args[1]) if args[1][0] in ("ref",) else (("deref", args[1]) if False else _deref_if_ref_ty(args[1])))
        if callee in PURE:
            return ("call", callee, args, None)
        return ("call", callee, args, loc)

    def rvalue(self, rv, loc):
        k = rv["k"]
        if k == "use":
            return self.operand(rv["op"], loc)
        if k == "ref":
            p = rv["place"]
            if len(p["proj"]) == 1 and p["proj"][0]["k"] == "deref":
                return self.local(p["local"], loc)  # reborrow `&[mut] *p` is the pointer p itself
            return mk_ref(self.place(p, loc))
        if k == "rawptr":
            return mk_ref(self.place(rv["place"], loc))
        if k == "binop":
            return mk_bin(rv["op"], self.operand(rv["a"], loc), self.operand(rv["b"], loc))
        if k == "unop":
            a = self.operand(rv["a"], loc)
            if rv["op"] == "Neg" and a[0] == "const":
                return ("const", -a[1])
            if rv["op"] == "Not" and a[0] == "const" and isinstance(a[1], bool):
                return ("const", not a[1])
            if rv["op"] == "PtrMetadata":
                return ("len", mk_deref(a))
            return ("un", rv["op"], a)
        if k == "cast":
            a = self.operand(rv["op"], loc)
            ty = rv["ty"]
            if a[0] == "const" and ty in INT_RANGES and isinstance(a[1], int):
                return ("const", wrap(ty, int(a[1])))
            if a[0] == "const" and ty in ("f64", "f32") and isinstance(a[1], int):
                return ("float", float(a[1]))
            if rv["kind"].startswith("PointerCoercion") or rv["kind"].startswith("Transmute"):
                return a
            return ("cast", ty, a)
        if k == "discr":
            return ("discr", self.place(rv["place"], loc), rv["place"]["ty"])
        if k == "aggregate":
            fs = tuple(self.operand(f, loc) for f in rv["fields"])
            if rv["agg"] == "adt":
                return ("agg", rv["adt"], rv["variant"], fs)
            if rv["agg"] == "closure":
                return ("agg", "closure", rv["closure"], fs)
            return ("agg", rv["agg"], None, fs)
        if k == "repeat":
            return ("repeat", self.operand(rv["op"], loc), rv["n"])
        return ("opaque", rv.get("dbg", k))

    # ---- convenience -----------------------------------------------------------------------
    def call_args(self, bb):
        t = self.b.term(bb)
        loc = self.b.term_loc(bb)
        return tuple(self.operand(a, loc) for a in t["args"])

    def switch_discr(self, bb):
        t = self.b.term(bb)
        return self.operand(t["discr"], self.b.term_loc(bb))


def _deref_if_ref_ty(e):
    """Operand of a by-reference arithmetic impl (`i8 + &i8`): the referenced value."""
    if e[0] == "ref":
        return e[1]
    return ("deref", e)


def mk_ref_value(v, ty):
    e = from_value(v)
    if ty.startswith("&"):
        return ("ref", e)
    return e


def unname(e):
    """Drop ('named', def, value) wrappers (recursively) so that a named constant compares equal
    to its literal value."""
    if not isinstance(e, tuple):
        return e
    if e and e[0] == "named":
        return unname(e[2])
    return tuple(unname(x) if isinstance(x, tuple) else x for x in e)


def subexprs(e):
    yield e
    if isinstance(e, tuple):
        for x in e[1:]:
            if isinstance(x, tuple) and x and isinstance(x[0], str):
                yield from subexprs(x)
            elif isinstance(x, tuple):
                for y in x:
                    if isinstance(y, tuple) and y and isinstance(y[0], str):
                        yield from subexprs(y)


def mentions(e, pred):
    return any(pred(s) for s in subexprs(e))


def show_expr(e, body=None, depth=0):
    if not isinstance(e, tuple) or not e:
        return repr(e)
    k = e[0]
    nm = (lambda l: body.lname(l)) if body is not None else (lambda l: "_%d" % l)
    r = lambda x: show_expr(x, body, depth + 1)
    if depth > 12:
        return "…"
    if k == "const":
        return str(e[1]).lower() if isinstance(e[1], bool) else str(e[1])
    if k == "float":
        return repr(e[1])
    if k == "char":
        return repr(e[1])
    if k == "str":
        return '"%s"' % e[1]
    if k == "unit":
        return "()"
    if k == "named":
        return e[1].split("::")[-1]
    if k == "cname":
        return e[1] + ("::promoted[%s]" % e[2] if e[2] is not None else "")
    if k == "fn":
        return e[1]
    if k == "arg":
        return nm(e[1])
    if k == "var":
        return nm(e[1]) + "'"
    if k == "mem":
        return "*" + nm(e[1])
    if k == "field":
        return "%s.%s" % (r(e[1]), e[2])
    if k == "index":
        return "%s[%s]" % (r(e[1]), r(e[2]))
    if k == "cidx":
        return "%s[%d]" % (r(e[1]), e[2])
    if k == "downcast":
        return "(%s as %s)" % (r(e[1]), e[2])
    if k == "deref":
        return "*" + r(e[1])
    if k == "ref":
        return "&" + r(e[1])
    if k == "bin":
        return "%s(%s, %s)" % (e[1], r(e[2]), r(e[3]))
    if k == "un":
        return "%s(%s)" % (e[1], r(e[2]))
    if k == "cast":
        return "(%s as %s)" % (r(e[2]), e[1])
    if k == "discr":
        return "discr(%s)" % r(e[1])
    if k == "len":
        return "len(%s)" % r(e[1])
    if k == "agg":
        nm2 = e[1].split("::")[-1] if e[1] else "?"
        if e[2]:
            nm2 = "%s::%s" % (nm2, e[2]) if e[1] not in ("closure",) else e[2]
        return "%s(%s)" % (nm2, ", ".join(r(x) for x in e[3]))
    if k == "call":
        return "%s(%s)" % (e[1].split("::")[-1], ", ".join(r(x) for x in e[2]))
    if k == "ovf":
        return "overflow(%s)" % r(e[1])
    if k == "static":
        return "static " + e[1]
    if k == "repeat":
        return "[%s; %s]" % (r(e[1]), e[2])
    return "<%s>" % (e[1] if len(e) > 1 else k)


def children(e):
    if not isinstance(e, tuple):
        return
    for x in e[1:]:
        if isinstance(x, tuple) and x and isinstance(x[0], str) and x[0] in _KINDS:
            yield x
        elif isinstance(x, tuple):
            for y in x:
                if isinstance(y, tuple) and y and isinstance(y[0], str) and y[0] in _KINDS:
                    yield y


_KINDS = {"const", "char", "str", "unit", "float", "cname", "fn", "arg", "var", "mem", "field", "index",
          "cidx", "downcast", "deref", "ref", "bin", "un", "cast", "discr", "len", "agg", "call", "ovf",
          "opaque", "static", "repeat"}


def data_slice(ex, e, limit=20000):
    """Backward data slice of expression `e`: every sub-expression reachable through operands and
    through the reaching definitions of versioned locals.  Mutations through a borrow whose effect
    is not a plain assignment show up as ('opaque', 'mutation@loc')."""
    seen = set()
    st = [e]
    while st and len(seen) < limit:
        x = st.pop()
        if x in seen:
            continue
        seen.add(x)
        st.extend(children(x))
        if x[0] in ("var", "mem"):
            for dloc, kind in x[2]:
                if kind == "entry":
                    continue
                bb, i = dloc
                stmts = ex.b.stmts(bb)
                if kind in ("whole", "partial") and i < len(stmts):
                    st.append(ex.rvalue(stmts[i]["rv"], dloc))
                    if kind == "partial":
                        pl = stmts[i]["place"]
                        for el in pl["proj"]:
                            if el["k"] == "index":
                                st.append(ex.local(el["local"], dloc))
                elif kind == "whole":
                    t = ex.b.term(bb)
                    if t["k"] == "call":
                        st.append(ex.call_expr(t, dloc))
                elif kind == "mem" and i < len(stmts):
                    st.append(ex.rvalue(stmts[i]["rv"], dloc))
                elif kind == "mem":
                    t = ex.b.term(bb)
                    if t["k"] == "call":
                        st.append(ex.call_expr(t, dloc))
                else:
                    st.append(("opaque", "mutation@%s" % (dloc,)))
    return seen
