"""Run the wfacts driver over a source tree and load the fact file (fresh on every call)."""
import json, os, shutil, subprocess, sys, tempfile, time, glob, uuid

VERIF = os.path.dirname(os.path.dirname(os.path.abspath(__file__)))
DRIVER = os.path.join(VERIF, "driver", "target", "release", "wfacts")
CACHE = os.path.join(VERIF, ".cache")


class ExtractError(Exception):
    pass


def _sysroot():
    return subprocess.check_output(["rustc", "+nightly", "--print", "sysroot"], text=True).strip()


def ensure_driver():
    if not os.path.exists(DRIVER):
        subprocess.check_call(
            ["cargo", "+nightly", "build", "--release", "--offline"],
            cwd=os.path.join(VERIF, "driver"),
            env=dict(os.environ, CARGO_NET_OFFLINE="true"),
        )


def extract(src="/repo", config="dev", all_targets=False, keep_log=False, retries=3):
    """Concurrency-safe wrapper: extractions sharing the cache directory are serialised with a file
    lock (the fingerprint deletion must not race with another cargo run), and transient cargo
    failures are retried."""
    import fcntl
    os.makedirs(CACHE, exist_ok=True)
    # tools only (tools/mut.py run_seed on a scratch copy that does not change between the 18 checks): a
    # fact file written once for that copy is reused.  Never set for the registered checks, which extract
    # from /repo's current tree on every run.
    reuse = os.environ.get("WV_FACTS_REUSE")
    if reuse and src != "/repo":
        pth = os.path.join(src, ".wfacts-%s.json" % config)
        if os.path.exists(pth):
            with open(pth) as fh:
                return json.load(fh)
        facts = extract_fresh(src, config, all_targets, retries)
        with open(pth, "w") as fh:
            json.dump(facts, fh)
        return facts
    return extract_fresh(src, config, all_targets, retries)


def extract_fresh(src="/repo", config="dev", all_targets=False, retries=3):
    import fcntl
    last = None
    for attempt in range(retries):
        with open(os.path.join(CACHE, "extract-%s.lock" % config), "w") as lk:
            fcntl.flock(lk, fcntl.LOCK_EX)
            try:
                return _extract(src, config, all_targets)
            except ExtractError as e:
                last = e
            finally:
                fcntl.flock(lk, fcntl.LOCK_UN)
        time.sleep(0.5 * (attempt + 1))
    raise last


def _extract(src="/repo", config="dev", all_targets=False, keep_log=False):
    """Returns the fact dict of the `walleye` bin target of the tree at `src`.

    config: "dev" (overflow checks on) or "release" (overflow checks off).
    The dependency artifacts are reused from /verif/.cache; the member itself is always recompiled
    (its fingerprint is deleted first and a nonce proves the fact file was written by this call)."""
    ensure_driver()
    os.makedirs(CACHE, exist_ok=True)
    tdir = os.path.join(CACHE, "target-" + config)
    # force the member to be recompiled: cargo's freshness cache would otherwise skip the wrapper
    for fp in glob.glob(os.path.join(tdir, "*", ".fingerprint", "walleye-*")):
        shutil.rmtree(fp, ignore_errors=True)
    nonce = uuid.uuid4().hex
    out = os.path.join(tempfile.gettempdir(), "wfacts-%s.json" % nonce)
    env = dict(os.environ)
    env.update(
        CARGO_NET_OFFLINE="true",
        LD_LIBRARY_PATH=os.path.join(_sysroot(), "lib"),
        RUSTFLAGS="-Zmir-opt-level=0 -Awarnings"
        + (" -Coverflow-checks=off -Cdebug-assertions=off" if config == "release" else ""),
        RUSTC_WORKSPACE_WRAPPER=DRIVER,
        CARGO_TARGET_DIR=tdir,
        WFACTS_OUT=out,
        WFACTS_NONCE=nonce,
        WFACTS_CRATE="walleye",
    )
    env.pop("RUSTC_WRAPPER", None)
    cmd = ["cargo", "+nightly", "check", "--offline", "--quiet"]
    if all_targets:
        cmd.append("--all-targets")
    t0 = time.time()
    p = subprocess.run(cmd, cwd=src, env=env, stdout=subprocess.PIPE, stderr=subprocess.STDOUT, text=True)
    dt = time.time() - t0
    try:
        if p.returncode != 0:
            raise ExtractError("cargo check failed in %s:\n%s" % (src, p.stdout[-4000:]))
        if not os.path.exists(out):
            raise ExtractError("fact file was not written (driver skipped?):\n" + p.stdout[-2000:])
        with open(out) as f:
            facts = json.load(f)
        tfacts = None
        if all_targets and os.path.exists(out + ".test"):
            with open(out + ".test") as f:
                tfacts = json.load(f)
    finally:
        for pth in (out, out + ".test"):
            if os.path.exists(pth):
                os.remove(pth)
    if facts.get("nonce") != nonce:
        raise ExtractError("stale fact file (nonce mismatch)")
    facts["_meta"] = {"src": src, "config": config, "extract_s": round(dt, 2), "all_targets": all_targets}
    if tfacts is not None:
        facts["_test_facts"] = tfacts
    return facts


if __name__ == "__main__":
    src = sys.argv[1] if len(sys.argv) > 1 else "/repo"
    f = extract(src)
    print(json.dumps({"bodies": len(f["bodies"]), "consts": len(f["consts"]), "adts": len(f["adts"]),
                      "statics": len(f["statics"]), "meta": f["_meta"]}))
    if len(sys.argv) > 2:
        json.dump(f, open(sys.argv[2], "w"))
