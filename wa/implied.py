"""What a branch edge says: boolean implication through `!`, named booleans and `&&` / `||` temporaries.

`if a && !f(x) { .. }`, `let ok = a && !f(x); if !ok { continue } ..` and `if !a { continue } if f(x) { continue } ..`
put the same facts (`a`, `f(x) == false`) in front of the guarded code, but only the first is a switch
on the call result itself.  `implied(b, ex, e, val)` gives the atomic facts that must hold when the
boolean expression `e` has the value `val`:

  * `!e`                      -> facts of e == !val
  * `e == true/false`, `!=`   -> facts of e
  * `a & b` true, `a | b` false -> facts of both operands
  * a bool local with several reaching definitions (the lowering of `&&`, `||`, `if c {true} else {..}`,
    a named condition): the definitions that can produce `val` (a constant definition of the other
    value cannot); the facts common to all of them.  When exactly one definition remains, a marker
    ("lastdef", local, loc) records that execution passed that definition since the local was last
    written (rules use it to ask for freshness of the value on a path).

Atoms are (expr, bool) over `Exprs` expressions (calls carry their location, so an atom about a call
is about that very evaluation)."""
from .cond import switch_edges

INFEASIBLE = ("infeasible",)


def edge_truths(b, s):
    """{target: bool} for the edges of a switch on a bool (edges that do not fix the value are left out)."""
    t = b.term(s)
    if t["k"] != "switch" or t.get("discr_ty") != "bool":
        return {}
    listed = [v for v, _ in t["cases"]]
    out = {}
    for tg, vals, oth in switch_edges(b, s):
        tr = None
        if not oth and vals == [0]:
            tr = False
        elif not oth and vals == [1]:
            tr = True
        elif oth and not vals:
            tr = True if listed == [0] else (False if listed == [1] else None)
        if tr is not None:
            out[tg] = tr
    return out


def _is_bool_const(e):
    return e[0] == "const" and isinstance(e[1], bool)


def implied(b, ex, e, val, depth=0):
    """Set of atoms (expr, bool) / markers that hold whenever bool expression `e` evaluates to `val`."""
    k = e[0]
    if depth > 10:
        return {(e, val)}
    if k == "const":
        if isinstance(e[1], bool) and e[1] != val:
            return {INFEASIBLE}
        return set()
    if k == "un" and e[1] == "Not":
        return implied(b, ex, e[2], not val, depth + 1)
    if k == "bin" and e[1] in ("Eq", "Ne") and (_is_bool_const(e[2]) or _is_bool_const(e[3])):
        c, x = (e[2], e[3]) if _is_bool_const(e[2]) else (e[3], e[2])
        same = (c[1] is True) == (e[1] == "Eq")      # x == true / x != false  -> x has the value of e
        return implied(b, ex, x, val if same else not val, depth + 1)
    if k == "bin" and e[1] in ("BitAnd", "BitOr") and val == (e[1] == "BitAnd"):
        return implied(b, ex, e[2], val, depth + 1) | implied(b, ex, e[3], val, depth + 1) | {(e, val)}
    if k == "var" and b.local_ty(e[1]) == "bool":
        l = e[1]
        cands = []
        for dloc, kind in e[2]:
            if kind != "whole":
                return {(e, val)}
            de = ex._def_expr(l, dloc)
            if _is_bool_const(de) and de[1] != val:
                continue
            cands.append((dloc, de))
        if not cands:
            return {INFEASIBLE}
        sets = []
        for dloc, de in cands:
            s_ = implied(b, ex, de, val, depth + 1)
            if INFEASIBLE in s_:
                continue
            # the definition was executed, so what its block is guarded by held as well
            # (`let ok = a && b;` defines ok := b only under a)
            s_ = s_ | known_atoms(b, ex, dloc[0], depth + 3)
            if len(cands) == 1:
                s_ = s_ | {("lastdef", l, dloc)}
            sets.append(s_)
        if not sets:
            return {INFEASIBLE}
        if len(cands) == 1:
            return sets[0]          # fully explained by its one feasible definition
        return set.intersection(*sets) | {(e, val)}
    return {(e, val)}


def edge_atoms(b, ex, s, depth=0):
    """{target: set of atoms} for a bool switch block s."""
    tr = edge_truths(b, s)
    if not tr:
        return {}
    d = ex.switch_discr(s)
    return {tg: implied(b, ex, d, v, depth) for tg, v in tr.items()}


def implying_edges(b, ex, want):
    """[(s, target, atom, fresh, lastdefs)] for every bool-switch edge that implies an atom (expr, truth) with
    want(expr, truth).  `fresh` is the set of blocks one of which every execution must have passed
    since the value the edge tests was computed: for a switch on the wanted expression itself that is
    the switch's predecessor(s); for a named / composed boolean, all definition blocks of the locals
    the implication went through; `lastdefs` lists those (local, def loc).  Facts that already hold on
    entry to the switch block are not attributed to its edges."""
    out = []
    for s in b.normal:
        if s not in b.reachable or b.term(s)["k"] != "switch":
            continue
        for tg, atoms in edge_atoms(b, ex, s).items():
            if INFEASIBLE in atoms:
                continue
            marks = [a for a in atoms if a[0] == "lastdef"]
            base = None
            for a in atoms:
                if a[0] == "lastdef" or a is INFEASIBLE or len(a) != 2 or not isinstance(a[1], bool):
                    continue
                if not want(a[0], a[1]):
                    continue
                if base is None:
                    base = known_atoms(b, ex, s)
                if a in base:
                    continue        # known before the test: this edge does not decide it
                if marks:
                    fresh = set()
                    for _, l, _dl in marks:
                        fresh |= {loc[0] for loc, kd in b.reaching().all_sites(l)}
                else:
                    fresh = set(b.pred.get(s, []))
                out.append((s, tg, a, frozenset(fresh), tuple((l, dl) for _, l, dl in marks)))
    return out


def known_atoms(b, ex, bb, depth=0):
    """Atoms known on entry to block bb: union of the atoms of every bool-switch edge that dominates bb."""
    if depth > 6:
        return set()
    cache = ex.__dict__.setdefault("_known_atoms_cache", {})
    if (bb, depth) in cache:
        return cache[(bb, depth)]
    out = set()
    for s in b.normal:
        if s not in b.reachable or b.term(s)["k"] != "switch" or not edge_truths(b, s):
            continue
        doms = [tg for tg in edge_truths(b, s)
                if (tg == bb and len(b.pred.get(bb, [])) == 1) or (b.edge_dominates((s, tg), bb) and (tg == bb or b.reaches(s, bb)))]
        if not doms:
            continue
        ea = edge_atoms(b, ex, s, depth)
        for tg in doms:
            atoms = ea.get(tg, set())
            if INFEASIBLE in atoms:
                continue
            out |= {a for a in atoms if a[0] != "lastdef"}
    cache[(bb, depth)] = out
    return out
