"""What a branch edge says: boolean implication through `!`, named booleans and `&&` / `||` temporaries.

`if a && !f(x) { .. }`, `let ok = a && !f(x); if !ok { continue } ..` and `if !a { continue } if f(x) { continue } ..`
put the same facts (`a`, `f(x) == false`) in front of the guarded code, but only the first is a switch
on the call result itself.  `implied(b, ex, e, val)` gives the atomic facts that must hold when the
boolean expression `e` has the value `val`:

  * `!e`                      -> facts of e == !val
  * `e == true/false`, `!=`   -> facts of e
  * `a & b` true, `a | b` false -> facts of both operands
  * a bool local with several reaching definitions (the lowering of `&&`, `||`, `if c {true} else {..}`,
    a named condition): the definitions that can produce `val` (a constant definition of the other
    value cannot); the facts common to all of them.  When exactly one definition remains, a marker
    ("lastdef", local, loc) records that execution passed that definition since the local was last
    written (rules use it to ask for freshness of the value on a path).

Atoms are (expr, bool) over `Exprs` expressions (calls carry their location, so an atom about a call
is about that very evaluation)."""
from .cond import switch_edges

INFEASIBLE = ("infeasible",)


def edge_truths(b, s):
    """{target: bool} for the edges of a switch on a bool (edges that do not fix the value are left out)."""
    t = b.term(s)
    if t["k"] != "switch" or t.get("discr_ty") != "bool":
        return {}
    listed = [v for v, _ in t["cases"]]
    out = {}
    for tg, vals, oth in switch_edges(b, s):
        tr = None
        if not oth and vals == [0]:
            tr = False
        elif not oth and vals == [1]:
            tr = True
        elif oth and not vals:
            tr = True if listed == [0] else (False if listed == [1] else None)
        if tr is not None:
            out[tg] = tr
    return out


def _is_bool_const(e):
    return e[0] == "const" and isinstance(e[1], bool)


def implied(b, ex, e, val, depth=0):
    """Set of atoms (expr, bool) / markers that hold whenever bool expression `e` evaluates to `val`."""
    k = e[0]
    if depth > 10:
        return {(e, val)}
    if k == "const":
        if isinstance(e[1], bool) and e[1] != val:
            return {INFEASIBLE}
        return set()
    if k == "un" and e[1] == "Not":
        return implied(b, ex, e[2], not val, depth + 1)
    if k == "bin" and e[1] in ("Eq", "Ne") and (_is_bool_const(e[2]) or _is_bool_const(e[3])):
        c, x = (e[2], e[3]) if _is_bool_const(e[2]) else (e[3], e[2])
        same = (c[1] is True) == (e[1] == "Eq")      # x == true / x != false  -> x has the value of e
        return implied(b, ex, x, val if same else not val, depth + 1)
    if k == "bin" and e[1] in ("BitAnd", "BitOr") and val == (e[1] == "BitAnd"):
        return implied(b, ex, e[2], val, depth + 1) | implied(b, ex, e[3], val, depth + 1) | {(e, val)}
    if k == "var" and b.local_ty(e[1]) == "bool":
        l = e[1]
        cands = []
        for dloc, kind in e[2]:
            if kind != "whole":
                return {(e, val)}
            de = ex._def_expr(l, dloc)
            if _is_bool_const(de) and de[1] != val:
                continue
            cands.append((dloc, de))
        if not cands:
            return {INFEASIBLE}
        sets = []
        for dloc, de in cands:
            s_ = implied(b, ex, de, val, depth + 1)
            if INFEASIBLE in s_:
                continue
            # the definition was executed, so what its block is guarded by held as well
            # (`let ok = a && b;` defines ok := b only under a)
            s_ = s_ | _known_all(b, ex, dloc[0], depth + 3)
            if len(cands) == 1:
                s_ = s_ | {("lastdef", l, dloc)}
            sets.append(s_)
        if not sets:
            return {INFEASIBLE}
        if len(cands) == 1:
            return sets[0]          # fully explained by its one feasible definition
        return set.intersection(*sets) | {(e, val)}
    return {(e, val)}


def edge_atoms(b, ex, s, depth=0):
    """{target: set of atoms} for a bool switch block s."""
    tr = edge_truths(b, s)
    if not tr:
        return {}
    d = ex.switch_discr(s)
    return {tg: implied(b, ex, d, v, depth) for tg, v in tr.items()}


def implying_edges(b, ex, want):
    """[(s, target, atom, fresh, lastdefs)] for every bool-switch edge that implies an atom (expr, truth) with
    want(expr, truth).  `fresh` is the set of blocks one of which every execution must have passed
    since the value the edge tests was computed: for a switch on the wanted expression itself that is
    the switch's predecessor(s); for a named / composed boolean, all definition blocks of the locals
    the implication went through; `lastdefs` lists those (local, def loc).  Facts that already hold on
    entry to the switch block are not attributed to its edges."""
    out = []
    for s in b.normal:
        if s not in b.reachable or b.term(s)["k"] != "switch":
            continue
        for tg, atoms in edge_atoms(b, ex, s).items():
            if INFEASIBLE in atoms:
                continue
            marks = [a for a in atoms if a[0] == "lastdef"]
            base = None
            for a in atoms:
                if a[0] == "lastdef" or a is INFEASIBLE or len(a) != 2 or not isinstance(a[1], bool):
                    continue
                if not want(a[0], a[1]):
                    continue
                if base is None:
                    base = known_atoms(b, ex, s)
                if a in base:
                    continue        # known before the test: this edge does not decide it
                if marks:
                    fresh = set()
                    for _, l, _dl in marks:
                        fresh |= {loc[0] for loc, kd in b.reaching().all_sites(l)}
                else:
                    fresh = set(b.pred.get(s, []))
                out.append((s, tg, a, frozenset(fresh), tuple((l, dl) for _, l, dl in marks)))
    return out


def _known_all(b, ex, bb, depth=0):
    """Everything known on entry to bb: bool atoms of dominating bool-switch edges (with what they
    imply) and ("switchfact", discr, vals|None, excl) for dominating edges of other switches."""
    if depth > 6:
        return set()
    cache = ex.__dict__.setdefault("_known_atoms_cache", {})
    if (bb, depth) in cache:
        return cache[(bb, depth)]
    from .cond import dominating_facts
    out = set()
    for s in b.normal:
        if s not in b.reachable or b.term(s)["k"] != "switch" or not edge_truths(b, s):
            continue
        doms = [tg for tg in edge_truths(b, s)
                if (tg == bb and len(b.pred.get(bb, [])) == 1) or (b.edge_dominates((s, tg), bb) and (tg == bb or b.reaches(s, bb)))]
        if not doms:
            continue
        ea = edge_atoms(b, ex, s, depth)
        for tg in doms:
            atoms = ea.get(tg, set())
            if INFEASIBLE in atoms:
                continue
            out |= {a for a in atoms if a[0] != "lastdef"}
    for d, vals, excl, s, tg in dominating_facts(b, ex, bb):
        if b.term(s).get("discr_ty") != "bool":
            out.add(("switchfact", d, tuple(vals) if vals is not None else None, tuple(excl)))
    cache[(bb, depth)] = out
    return out


def known_atoms(b, ex, bb, depth=0):
    """Bool atoms (expr, truth) known on entry to block bb: the atoms of every bool-switch edge that
    dominates bb, including what named / composed conditions imply."""
    return {a for a in _known_all(b, ex, bb, depth) if len(a) == 2 and isinstance(a[1], bool)}


def known_switch_facts(b, ex, bb):
    """[(discr expr, vals|None, excl)] known on entry to bb from non-bool switches (`match`, `if let`,
    iterator `next`): those whose edge dominates bb, and those that guarded the one definition of a
    named boolean that a dominating edge implies (`let done = loop-with-early-return-false; if !done {..}`)."""
    return [(a[1], list(a[2]) if a[2] is not None else None, list(a[3])) for a in _known_all(b, ex, bb) if a[0] == "switchfact"]


# ---- feasible reachability: branches correlated through constant-valued boolean locals ------------
def _block_bool_defs(b):
    """{block: [(local, const value or None)]} in program order: whole definitions of bool locals."""
    out = {}
    for bb in b.normal:
        if bb not in b.reachable:
            continue
        lst = []
        for st in b.stmts(bb):
            if st["k"] == "assign" and not st["place"]["proj"] and b.local_ty(st["place"]["local"]) == "bool":
                rv = st["rv"]
                c = None
                if rv["k"] == "use" and rv["op"]["k"] == "const" and rv["op"].get("ty") == "bool" and "val" in rv["op"]:
                    c = bool(rv["op"]["val"])
                elif rv["k"] == "use" and rv["op"]["k"] in ("copy", "move") and not rv["op"]["place"]["proj"]:
                    c = ("copy", rv["op"]["place"]["local"])
                lst.append((st["place"]["local"], c))
        t = b.term(bb)
        if t["k"] == "call" and not t["dest"]["proj"] and b.local_ty(t["dest"]["local"]) == "bool":
            lst.append((t["dest"]["local"], None))
        if lst:
            out[bb] = lst
    return out


def _eval3(e, know):
    k = e[0]
    if k == "const" and isinstance(e[1], bool):
        return e[1]
    if k == "un" and e[1] == "Not":
        v = _eval3(e[2], know)
        return None if v is None else (not v)
    if k == "bin" and e[1] in ("Eq", "Ne") and (_is_bool_const(e[2]) or _is_bool_const(e[3])):
        c, x = (e[2], e[3]) if _is_bool_const(e[2]) else (e[3], e[2])
        v = _eval3(x, know)
        if v is None:
            return None
        return (v == c[1]) == (e[1] == "Eq")
    if k == "var":
        return know.get(e[1])
    return None


def feasible_reach(b, ex, start, removed_nodes=(), removed_edges=(), limit=50000):
    """Blocks reachable from the successors of block `start` on paths that are consistent in the
    constant booleans they assign and later test: after `done = false` the edge `done == true` of a
    later switch on `done` is not taken (until `done` is assigned again).  A superset of the truly
    feasible paths, a subset of plain CFG reachability."""
    rn, re_ = set(removed_nodes), set(removed_edges)
    defs = _block_bool_defs(b)

    def after(bb, know):
        k = dict(know)
        for l, c in defs.get(bb, ()):
            if isinstance(c, tuple):
                c = k.get(c[1])
            if c is None:
                k.pop(l, None)
            else:
                k[l] = c
        return k

    def succs(bb, know):
        t = b.term(bb)
        ss = b.succ.get(bb, [])
        if t["k"] == "switch" and know:
            tr = edge_truths(b, bb)
            if tr:
                v = _eval3(ex.switch_discr(bb), know)
                if v is not None:
                    ss = [x for x in ss if tr.get(x, v) == v]
        return ss
    seen_states, seen_blocks = set(), set()
    k0 = after(start, {})
    work = [(x, frozenset(k0.items())) for x in succs(start, k0) if x not in rn and (start, x) not in re_]
    while work and len(seen_states) < limit:
        st = work.pop()
        if st in seen_states:
            continue
        seen_states.add(st)
        bb, kn = st
        seen_blocks.add(bb)
        k1 = after(bb, dict(kn))
        fk = frozenset(k1.items())
        for x in succs(bb, k1):
            if x in rn or (bb, x) in re_:
                continue
            work.append((x, fk))
    return seen_blocks
