"""Affine normal form of integer expressions: sum of coeff*term + const (terms are opaque exprs)."""
from fractions import Fraction


def linear(e):
    """Returns (dict term->coeff, const) or None if not affine over integer ops."""
    k = e[0]
    if k == "const" and isinstance(e[1], int) and not isinstance(e[1], bool):
        return ({}, e[1])
    if k == "bin":
        op = e[1].replace("WithOverflow", "").replace("Unchecked", "")
        if op in ("Add", "Sub"):
            a, b = linear(e[2]), linear(e[3])
            if a is None or b is None:
                return None
            sgn = 1 if op == "Add" else -1
            t = dict(a[0])
            for x, c in b[0].items():
                t[x] = t.get(x, 0) + sgn * c
                if t[x] == 0:
                    del t[x]
            return (t, a[1] + sgn * b[1])
        if op == "Mul":
            a, b = linear(e[2]), linear(e[3])
            if a is None or b is None:
                return None
            if not a[0]:
                a, b = b, a
            if b[0]:
                return None
            c = b[1]
            return ({x: v * c for x, v in a[0].items() if v * c != 0}, a[1] * c)
    if k == "un" and e[1] == "Neg":
        a = linear(e[2])
        if a is None:
            return None
        return ({x: -v for x, v in a[0].items()}, -a[1])
    if k == "cast" and e[1] in ("i8", "i16", "i32", "i64", "i128", "isize", "usize", "u8", "u16", "u32", "u64"):
        # width changes are transparent for the small values these forms are used on; the rule that
        # uses the form states this assumption
        return linear(e[2])
    return ({e: 1}, 0)


def lin_eq(a, b):
    return a is not None and b is not None and a[0] == b[0] and a[1] == b[1]
