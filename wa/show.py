"""Pretty-printer for fact-file bodies (debugging aid and `--explain` excerpts)."""
import json, sys


def place_s(p):
    s = "_%d" % p["local"]
    for e in p["proj"]:
        k = e["k"]
        if k == "deref":
            s = "(*%s)" % s
        elif k == "field":
            s = "%s.%s" % (s, e["name"])
        elif k == "index":
            s = "%s[_%d]" % (s, e["local"])
        elif k == "cindex":
            s = "%s[%s%d]" % (s, "-" if e["from_end"] else "", e["offset"])
        elif k == "downcast":
            s = "(%s as %s)" % (s, e["variant"])
        else:
            s = "%s.<%s>" % (s, e.get("dbg"))
    return s


def op_s(o):
    k = o["k"]
    if k in ("copy", "move"):
        return ("" if k == "copy" else "move ") + place_s(o["place"])
    if k == "const":
        if "val" in o:
            return "const %s:%s" % (o["val"], o["ty"])
        if "str" in o:
            return "const %r" % o["str"]
        if "fn" in o:
            return "fn %s" % o["fn"]
        return "const{%s}" % o["text"]
    return "?%s" % o


def rv_s(rv):
    k = rv["k"]
    if k == "use":
        return op_s(rv["op"])
    if k == "ref":
        return ("&mut " if rv["mut"] else "&") + place_s(rv["place"])
    if k == "binop":
        return "%s(%s, %s)" % (rv["op"], op_s(rv["a"]), op_s(rv["b"]))
    if k == "unop":
        return "%s(%s)" % (rv["op"], op_s(rv["a"]))
    if k == "cast":
        return "%s as %s [%s]" % (op_s(rv["op"]), rv["ty"], rv["kind"])
    if k == "discr":
        return "discriminant(%s)" % place_s(rv["place"])
    if k == "aggregate":
        if rv["agg"] == "adt":
            return "%s::%s{%s}" % (rv["adt"], rv["variant"], ", ".join(op_s(f) for f in rv["fields"]))
        return "%s(%s)" % (rv["agg"], ", ".join(op_s(f) for f in rv["fields"]))
    if k == "repeat":
        return "[%s; %s]" % (op_s(rv["op"]), rv["n"])
    if k == "rawptr":
        return "&raw " + place_s(rv["place"])
    return "<%s>" % rv.get("dbg", k)


def term_s(t):
    k = t["k"]
    if k == "goto":
        return "goto -> bb%d" % t["target"]
    if k == "switch":
        return "switch(%s) [%s, otherwise: bb%d]" % (
            op_s(t["discr"]), ", ".join("%d: bb%d" % (v, b) for v, b in t["cases"]), t["otherwise"])
    if k == "call":
        return "%s = %s(%s) -> %s" % (
            place_s(t["dest"]), t.get("callee_full") or t.get("callee"),
            ", ".join(op_s(a) for a in t["args"]),
            "bb%d" % t["target"] if t["target"] is not None else "!")
    if k == "assert":
        return "assert(%s%s, %s) -> bb%d" % ("" if t["expected"] else "!", op_s(t["cond"]), t["assert_kind"], t["target"])
    if k == "drop":
        return "drop(%s) -> bb%d" % (place_s(t["place"]), t["target"])
    return k


def show_body(b, out=sys.stdout, cleanup=False):
    names = {}
    for d in b["debug"]:
        v = d["value"]
        if "local" in v and not v["proj"]:
            names[v["local"]] = d["name"]
    out.write("fn %s  (%s:%d)\n" % (b["name"], b["span"]["file"], b["span"]["line"]))
    for i, l in enumerate(b["locals"]):
        out.write("  let _%d: %s%s\n" % (i, l["ty"], "  // " + names[i] if i in names else ""))
    for i, blk in enumerate(b["blocks"]):
        if blk["cleanup"] and not cleanup:
            continue
        out.write(" bb%d%s:\n" % (i, " (cleanup)" if blk["cleanup"] else ""))
        for st in blk["stmts"]:
            if st["k"] == "assign":
                out.write("    %s = %s    // %d\n" % (place_s(st["place"]), rv_s(st["rv"]), st["span"]["line"]))
            else:
                out.write("    %s    // %d\n" % (st.get("dbg", st["k"]), st["span"]["line"]))
        out.write("    %s    // %d\n" % (term_s(blk["term"]), blk["term"]["span"]["line"]))


if __name__ == "__main__":
    f = json.load(open(sys.argv[1]))
    for name in sys.argv[2:]:
        if name in f["bodies"]:
            show_body(f["bodies"][name])
        elif name in f["consts"]:
            show_body(f["consts"][name]["body"])
        else:
            for k in f["bodies"]:
                if name in k:
                    print(k)
