"""Call graph over crate-local bodies: resolved callees, closure arguments, and the generic
call-backs std makes into the crate (`parse::<T>` -> `<T as FromStr>::from_str`, formatting ->
`Display::fmt`/`Debug::fmt`, `Into::into` -> `From::from`, `clone`/`eq` of containers -> element impls)."""
import re
from .mir import callee_of

_TRAIT_BY_CALLEE = [
    (re.compile(r"<impl str>::parse$"), ["std::str::FromStr>::from_str"]),
    (re.compile(r"Argument::<'_>::new_display"), ["std::fmt::Display>::fmt"]),
    (re.compile(r"Argument::<'_>::new_debug"), ["std::fmt::Debug>::fmt"]),
    (re.compile(r"ToString>::to_string$|ToString::to_string$"), ["std::fmt::Display>::fmt"]),
    (re.compile(r"::into$"), ["std::convert::From<"]),
    (re.compile(r"Clone>::clone$|Clone::clone$|::clone_from_slice$|::to_vec$"), ["std::clone::Clone>::clone"]),
    (re.compile(r"PartialEq.*::eq$|PartialEq.*::ne$|::contains$"), ["std::cmp::PartialEq"]),
]


class CallGraph:
    def __init__(self, facts):
        self.facts = facts
        self.edges = {}
        self.ext = {}     # fn -> set of non-local callees
        names = list(facts.body_names())
        local_impls = [n for n in names if n.startswith("<")]
        for n in names:
            b = facts.body(n)
            out, ext = set(), set()
            for bb, t in b.iter_calls():
                tgt = None
                for c in (t.get("resolved"), t.get("callee")):
                    if c and facts.has_body(c):
                        tgt = c
                        break
                if tgt:
                    out.add(tgt)
                else:
                    c = callee_of(t)
                    if c:
                        ext.add(c)
                    # generic call-backs
                    full = t.get("callee_full") or ""
                    gargs = t.get("generic_args") or []
                    for rx, traits in _TRAIT_BY_CALLEE:
                        if c and rx.search(c):
                            for li in local_impls:
                                m = re.match(r"<([^ ]+) as ", li)
                                if not m:
                                    continue
                                ty = m.group(1)
                                if any(tr in li for tr in traits) and any(ty in g for g in gargs + [full] + t.get("arg_tys", [])):
                                    out.add(li)
                for cl in t.get("closure_args", []):
                    if facts.has_body(cl):
                        out.add(cl)
            # closures constructed in the body (aggregate) even if only stored
            for loc, st in b.iter_stmts():
                if st["k"] == "assign" and st["rv"]["k"] == "aggregate" and st["rv"].get("agg") == "closure":
                    if facts.has_body(st["rv"]["closure"]):
                        out.add(st["rv"]["closure"])
            self.edges[n] = out
            self.ext[n] = ext

    def cone(self, root):
        seen, st = set(), [root]
        while st:
            f = st.pop()
            if f in seen or f not in self.edges:
                continue
            seen.add(f)
            st.extend(self.edges[f])
        return seen

    def callers(self, fn):
        return {a for a, outs in self.edges.items() if fn in outs}


def get(facts):
    if not hasattr(facts, "_cg"):
        facts._cg = CallGraph(facts)
    return facts._cg
