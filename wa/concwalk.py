"""Concrete execution of one loop-free body on given leaf values (finite instantiation).

`Conc(facts, body, env).run()` follows the CFG from the entry, evaluating every switch discriminant
concretely, and gives the returned value.  Leaves are `Exprs` expressions with a value in `env`
(typically call results such as the k-th `chars.next()`).  Unlike wa/interp.py and wa/optinterp.py,
  * a local with several reaching definitions (the result of a `match`) is resolved by the path
    actually taken (its last definition on that path),
  * chars are code points (so `'a'..='h'` range tests, `c as usize - 'a' as usize` and a `match` on
    the char value all evaluate),
  * `char::to_digit / is_digit / is_ascii_digit`, `Range(Inclusive)::contains`, `Option` / `Result`
    constructors, discriminants, payloads and `unwrap / unwrap_or / ok / ok_or` are modelled.
Values: ints, bools, strs, tuples; NONE / ('some', v); ('adt', name, variant, (fields...));
('range', lo, hi, inclusive).  `Unknown` (wa/interp.py) is raised when a needed value is missing."""
from .mir import fold_binop, INT_RANGES, ShapeNotRecognised
from .expr import Exprs, wrap
from .interp import Unknown

NONE = ("none",)


def some(v):
    return ("some", v)


def is_opt(v):
    return v == NONE or (isinstance(v, tuple) and len(v) == 2 and v[0] == "some")


class Conc:
    def __init__(self, facts, body, env, ex=None):
        self.facts, self.b, self.env = facts, body, dict(env)
        self.ex = ex or Exprs(body)
        self.path = []

    # ---- expressions --------------------------------------------------------------------------
    def ev(self, e, depth=0):
        if e in self.env:
            return self.env[e]
        if depth > 60:
            raise Unknown(("depth", e))
        k = e[0]
        r = lambda x: self.ev(x, depth + 1)
        if k == "const":
            return e[1]
        if k == "char":
            return ord(e[1])
        if k in ("float", "str"):
            return e[1]
        if k == "unit":
            return ()
        if k in ("ref", "deref"):
            return r(e[1])
        if k == "var":
            return self._var(e, depth)
        if k == "bin":
            a, b = r(e[2]), r(e[3])
            v = fold_binop(e[1].replace("WithOverflow", ""), a, b)
            if v is None:
                raise Unknown(e)
            return v
        if k == "un":
            a = r(e[2])
            if e[1] == "Not":
                return (not a) if isinstance(a, bool) else ~a
            if e[1] == "Neg":
                return -a
            raise Unknown(e)
        if k == "cast":
            a = r(e[2])
            if e[1] in INT_RANGES and isinstance(a, (int, bool)):
                return wrap(e[1], int(a))
            if e[1] == "char" and isinstance(a, int):
                return a
            raise Unknown(e)
        if k == "discr":
            v = r(e[1])
            if v == NONE:
                return 0
            if is_opt(v):
                return 1
            if isinstance(v, bool):
                return int(v)
            if isinstance(v, tuple) and v and v[0] == "adt":
                if v[1] == "std::result::Result":
                    return 0 if v[2] == "Ok" else 1
                try:
                    for dv, n in self.facts.enum_variant_by_discr(v[1]).items():
                        if n == v[2]:
                            return dv
                except Exception:
                    pass
            raise Unknown(e)
        if k == "downcast":
            return r(e[1])
        if k == "field":
            base = r(e[1])
            if is_opt(base) and base != NONE and e[2] == "0":
                return base[1]
            if isinstance(base, tuple) and base and base[0] == "adt":
                try:
                    return base[3][int(e[2])]
                except (ValueError, IndexError):
                    raise Unknown(e)
            if isinstance(base, tuple) and not is_opt(base):
                try:
                    return base[int(e[2])]
                except (ValueError, IndexError):
                    raise Unknown(e)
            raise Unknown(e)
        if k in ("index", "cidx"):
            arr = r(e[1])
            i = r(e[2]) if k == "index" else e[2]
            if isinstance(arr, tuple) and arr and arr[0] == "array" and isinstance(i, int) and 0 <= i < len(arr[1]):
                return arr[1][i]
            raise Unknown(e)
        if k == "agg":
            if e[1] == "tuple":
                return tuple(r(x) for x in e[3])
            if e[1] == "std::option::Option":
                return NONE if e[2] == "None" else some(r(e[3][0]))
            if e[1] and e[1].startswith("std::ops::Range") and len(e[3]) >= 2:
                return ("range", r(e[3][0]), r(e[3][1]), e[1].startswith("std::ops::RangeInclusive"))
            if e[1] == "array":
                return ("array", tuple(r(x) for x in e[3]))
            if e[1] == "closure":
                return ("adt", "closure", e[2], tuple(r(x) for x in e[3]))
            return ("adt", e[1], e[2], tuple(r(x) for x in e[3]))
        if k == "call":
            return self._call(e, depth)
        raise Unknown(e)

    def _var(self, e, depth):
        """A local with several definitions: the last one on the path taken so far."""
        pos = {bb: i for i, bb in enumerate(self.path)}
        cands = [(pos[d[0]], d) for d, kind in e[2] if kind == "whole" and d[0] in pos]
        if not cands or any(kind not in ("whole", "entry") for _, kind in e[2]):
            raise Unknown(e)
        dloc = max(cands)[1]
        return self.ev(self.ex._def_expr(e[1], dloc), depth + 1)

    def _call(self, e, depth):
        name, args = e[1], e[2]
        r = lambda x: self.ev(x, depth + 1)
        if name.endswith("<impl char>::to_digit") and len(args) == 2:
            c, radix = r(args[0]), r(args[1])
            ch = chr(c)
            d = int(ch, 36) if ch.isascii() and ch.isalnum() else None
            return some(d) if d is not None and d < radix else NONE
        if name.endswith("<impl char>::is_digit") and len(args) == 2:
            c, radix = r(args[0]), r(args[1])
            ch = chr(c)
            return ch.isascii() and ch.isalnum() and int(ch, 36) < radix
        if name.endswith("<impl char>::is_ascii_digit") and len(args) == 1:
            return 48 <= r(args[0]) <= 57
        if "ops::Range" in name and "::contains" in name and len(args) == 2:
            rg, x = r(args[0]), r(args[1])
            if isinstance(rg, tuple) and rg and rg[0] == "range":
                return rg[1] <= x <= rg[2] if rg[3] else rg[1] <= x < rg[2]
            raise Unknown(e)
        if name.endswith("<impl [T]>::get") and len(args) == 2:
            arr, i = r(args[0]), r(args[1])
            if isinstance(arr, tuple) and arr and arr[0] == "array" and isinstance(i, int):
                return some(arr[1][i]) if 0 <= i < len(arr[1]) else NONE
            raise Unknown(e)
        if name.endswith("<impl [T]>::len") and len(args) == 1:
            arr = r(args[0])
            if isinstance(arr, tuple) and arr and arr[0] == "array":
                return len(arr[1])
            raise Unknown(e)
        for ty in ("usize", "u8", "u16", "u32", "u64", "isize", "i8", "i16", "i32", "i64"):
            for opn, fn in (("wrapping_sub", lambda a, b: a - b), ("wrapping_add", lambda a, b: a + b)):
                if name.endswith("<impl %s>::%s" % (ty, opn)) and len(args) == 2:
                    return wrap(ty, fn(r(args[0]), r(args[1])))
            if name.endswith("<impl %s>::checked_sub" % ty) and len(args) == 2:
                v = r(args[0]) - r(args[1])
                lo, hi = INT_RANGES[ty]
                return some(v) if lo <= v <= hi else NONE
            if name.endswith("<impl %s>::saturating_sub" % ty) and len(args) == 2:
                lo, hi = INT_RANGES[ty]
                return max(lo, min(hi, r(args[0]) - r(args[1])))
        if name.endswith("Option::<T>::copied") or name.endswith("Option::<&T>::copied") or name.endswith("Option::<T>::cloned") or name.endswith("Option::<&T>::cloned"):
            return r(args[0])
        for sfx in ("and_then", "map", "map_or", "map_or_else", "unwrap_or_else", "filter", "is_some_and", "or_else"):
            if name.endswith("Option::<T>::" + sfx):
                o = r(args[0])
                if not is_opt(o):
                    raise Unknown(e)
                if sfx == "and_then":
                    return NONE if o == NONE else self._apply(args[1], [o[1]], depth)
                if sfx == "map":
                    return NONE if o == NONE else some(self._apply(args[1], [o[1]], depth))
                if sfx == "map_or":
                    return r(args[1]) if o == NONE else self._apply(args[2], [o[1]], depth)
                if sfx == "map_or_else":
                    return self._apply(args[1], [], depth) if o == NONE else self._apply(args[2], [o[1]], depth)
                if sfx == "unwrap_or_else":
                    return self._apply(args[1], [], depth) if o == NONE else o[1]
                if sfx == "or_else":
                    return self._apply(args[1], [], depth) if o == NONE else o
                if sfx == "filter":
                    return o if o != NONE and self._apply(args[1], [o[1]], depth) else NONE
                if sfx == "is_some_and":
                    return o != NONE and bool(self._apply(args[1], [o[1]], depth))
        if name.endswith("Option::<T>::unwrap") or name.endswith("Option::<T>::expect"):
            o = r(args[0])
            if o == NONE:
                raise Unknown(("panics", e))
            return o[1]
        if name.endswith("Option::<T>::unwrap_or"):
            o = r(args[0])
            return r(args[1]) if o == NONE else o[1]
        if name.endswith("Option::<T>::is_some"):
            return r(args[0]) != NONE
        if name.endswith("Option::<T>::is_none"):
            return r(args[0]) == NONE
        if name.endswith("Option::<T>::ok_or"):
            o = r(args[0])
            return ("adt", "std::result::Result", "Err", (r(args[1]),)) if o == NONE else ("adt", "std::result::Result", "Ok", (o[1],))
        # ASCII case functions of char (code points): total, identity / false outside ASCII
        if name.endswith("<impl char>::to_ascii_lowercase") and len(args) == 1:
            c = r(args[0])
            return c + 32 if 65 <= c <= 90 else c
        if name.endswith("<impl char>::to_ascii_uppercase") and len(args) == 1:
            c = r(args[0])
            return c - 32 if 97 <= c <= 122 else c
        if name.endswith("<impl char>::is_ascii_uppercase") and len(args) == 1:
            return 65 <= r(args[0]) <= 90
        if name.endswith("<impl char>::is_ascii_lowercase") and len(args) == 1:
            return 97 <= r(args[0]) <= 122
        if name.endswith("<impl char>::is_ascii_alphabetic") and len(args) == 1:
            c = r(args[0])
            return 65 <= c <= 90 or 97 <= c <= 122
        if name.endswith("<impl char>::is_ascii") and len(args) == 1:
            return 0 <= r(args[0]) <= 127
        if name in ("std::cmp::max", "std::cmp::min"):
            vs = [r(a) for a in args]
            return max(vs) if name.endswith("max") else min(vs)
        for sfx, op in (("::ge", "Ge"), ("::gt", "Gt"), ("::le", "Le"), ("::lt", "Lt")):
            if name.endswith("PartialOrd>" + sfx) and len(args) == 2:
                return fold_binop(op, r(args[0]), r(args[1]))
        raise Unknown(e)

    def _apply(self, clo_e, argvals, depth):
        """Call a crate-local closure value on concrete arguments (its body is run concretely; the
        captured values are the fields of its environment)."""
        clo = self.ev(clo_e, depth + 1)
        if not (isinstance(clo, tuple) and clo[:2] == ("adt", "closure")) or not self.facts.has_body(clo[2]) or depth > 40:
            raise Unknown(clo_e)
        cb = self.facts.body(clo[2])
        if cb.loops() or cb.arg_count != 1 + len(argvals):
            raise Unknown(clo_e)
        env = {("arg", 1): clo}
        for i, v in enumerate(argvals):
            env[("arg", 2 + i)] = v
        v = Conc(self.facts, cb, env).run()
        if v is None:
            raise Unknown(("closure diverges", clo[2]))
        return v

    # ---- control ------------------------------------------------------------------------------
    def run(self, max_steps=4000, want_result=True):
        """Walk from the entry; returns the value written last to the return place (None if the
        path diverges).  With want_result=False only the path is computed (self.path) and True is
        returned at the `return`."""
        b = self.b
        bb = 0
        for _ in range(max_steps):
            self.path.append(bb)
            t = b.term(bb)
            k = t["k"]
            if k == "return":
                return self._result() if want_result else True
            if k in ("goto", "call", "assert", "drop"):
                if t.get("target") is None:
                    return None
                bb = t["target"]
                continue
            if k == "switch":
                v = self.ev(self.ex.switch_discr(bb))
                if isinstance(v, bool):
                    v = int(v)
                nxt = t["otherwise"]
                for val, tg in t["cases"]:
                    if val == v:
                        nxt = tg
                bb = nxt
                continue
            raise ShapeNotRecognised("terminator %s in concrete walk" % k)
        raise ShapeNotRecognised("walk did not terminate")

    def _result(self):
        b = self.b
        val, found = None, False
        for pb in self.path:
            for i, st in enumerate(b.stmts(pb)):
                if st["k"] == "assign" and st["place"]["local"] == 0 and not st["place"]["proj"]:
                    val = self.ev(self.ex.rvalue(st["rv"], (pb, i)))
                    found = True
            t = b.term(pb)
            if t["k"] == "call" and t["dest"]["local"] == 0 and not t["dest"]["proj"]:
                val = self.ev(self.ex.call_expr(t, b.term_loc(pb)))
                found = True
        if not found:
            raise Unknown(("no return value",))
        return val
