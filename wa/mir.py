"""Loader and CFG / dataflow utilities over the wfacts fact file.

All analyses work on the *normal-completion* CFG: cleanup blocks and unwind edges are removed and
`assert` success edges are straight-line (a panic is a separate obligation, see rules/c15.py)."""
import functools
from collections import defaultdict, deque

from . import show


class AnchorMissing(Exception):
    """A rule's anchor (function, field, call) could not be located: fail closed."""


class ShapeNotRecognised(Exception):
    """The anchor exists but the code is not in the shape the rule's argument needs: fail closed."""


# --------------------------------------------------------------------------------------------
class Facts:
    def __init__(self, d, known=None):
        """`known`: the reference vocabulary of function names (rules/known_functions.txt).  Calls to
        crate-local functions outside it are inlined into their callers (wa/inline.py), and such
        helper functions are not listed as bodies of their own once every use is a direct call."""
        self.d = d
        self.meta = d.get("_meta", {})
        self._bodies = {}
        self._cv = {}
        self.known = set(known) if known is not None else None
        self.inlined = {}      # caller -> [helpers inlined into it]
        self.absorbed = set()
        self.renamed = {}      # reference name -> name in this tree
        if isinstance(known, dict):
            self._resolve_renames(known)
        if self.known is not None:
            called = set()
            for n, b in d["bodies"].items():
                for blk in b["blocks"]:
                    t = blk["term"]
                    if t["k"] == "call":
                        c = t.get("resolved") or t.get("callee")
                        if c in d["bodies"] and self._is_helper(c):
                            called.add(c)
            self.absorbed = called

    def _resolve_renames(self, known):
        """A reference function that is missing from this tree while exactly one function outside the
        vocabulary has its signature (and lives in the same module) is that function under a new name:
        the fact base is rewritten to the reference name, so rules keep their anchors."""
        bodies = self.d["bodies"]

        def sig(b):
            return "(%s) -> %s" % (", ".join(b["locals"][i]["ty"] for i in range(1, b["arg_count"] + 1)), b["locals"][0]["ty"])

        def module(n):
            return n.rsplit("::", 1)[0] if "::" in n else ""
        missing = [n for n in known if n not in bodies and "{closure" not in n and known[n]]
        fresh = [n for n, b in bodies.items() if n not in known and b["kind"] in ("Fn", "AssocFn")]
        for old in missing:
            cands = [n for n in fresh if sig(bodies[n]) == known[old] and module(n) == module(old)]
            others = [m for m in missing if m != old and known[m] == known[old] and module(m) == module(old)]
            if len(cands) == 1 and not others:
                self.renamed[old] = cands[0]
                continue
            if not cands:
                # moved to another module (and possibly renamed): unique signature match crate-wide
                anyc = [n for n in fresh if sig(bodies[n]) == known[old]]
                anyo = [m for m in missing if m != old and known[m] == known[old]]
                if len(anyc) == 1 and not anyo and known[old].count(",") + (0 if known[old].startswith("()") else 1) >= 1:
                    self.renamed[old] = anyc[0]
        if not self.renamed:
            return
        back = {new: old for old, new in self.renamed.items()}

        def fix_name(n):
            if not isinstance(n, str):
                return n
            for new, old in back.items():
                if n == new:
                    return old
                if n.startswith(new + "::{"):
                    return old + n[len(new):]
            return n

        def walk(x):
            if isinstance(x, dict):
                for k, v in x.items():
                    if k in ("callee", "resolved", "callee_full", "name", "def", "fn", "closure") and isinstance(v, str):
                        x[k] = fix_name(v)
                    else:
                        walk(v)
            elif isinstance(x, list):
                for v in x:
                    walk(v)
        nb = {}
        for n, b in bodies.items():
            walk(b)
            nb[fix_name(n)] = b
        self.d["bodies"] = nb
        for k in ("consts", "statics", "items"):
            if isinstance(self.d.get(k), dict):
                self.d[k] = {fix_name(n): v for n, v in self.d[k].items()}

    def _is_helper(self, name):
        if self.known is None or name in self.known:
            return False
        b = self.d["bodies"].get(name)
        return b is not None and b["kind"] in ("Fn", "AssocFn")

    def has_body(self, name):
        return name in self.d["bodies"]

    def body(self, name):
        if name not in self._bodies:
            if name not in self.d["bodies"]:
                raise AnchorMissing("function `%s` not found in the crate" % name)
            d = self.d["bodies"][name]
            if self.known is not None:
                from .inline import inline_body
                d, done = inline_body(self.d["bodies"], d, self._is_helper)
                if done:
                    self.inlined[name] = sorted(set(done))
            self._bodies[name] = Body(self, d)
        return self._bodies[name]

    def body_names(self, real_only=True):
        for n, b in self.d["bodies"].items():
            if real_only and b["kind"] == "Promoted":
                continue
            if real_only and n in self.absorbed:
                continue
            yield n

    def all_bodies(self, real_only=True):
        for n in self.body_names(real_only):
            yield self.body(n)

    def adt(self, name):
        if name not in self.d["adts"]:
            raise AnchorMissing("type `%s` not found" % name)
        return self.d["adts"][name]

    def struct_fields(self, name):
        return [f["name"] for f in self.adt(name)["variants"][0]["fields"]]

    def struct_field_ty(self, name, field):
        for f in self.adt(name)["variants"][0]["fields"]:
            if f["name"] == field:
                return f["ty"]
        raise AnchorMissing("field `%s.%s` not found" % (name, field))

    def enum_variants(self, name):
        return {v["name"]: v["discr"] for v in self.adt(name)["variants"]}

    def enum_variant_by_discr(self, name):
        return {v["discr"]: v["name"] for v in self.adt(name)["variants"]}

    # ---- constants -------------------------------------------------------------------------
    def const_value(self, name):
        """Structured value of a named `const` item, by interpreting its initializer MIR."""
        name = self._const_alias(name)
        if name not in self._cv:
            if name not in self.d["consts"]:
                raise AnchorMissing("const `%s` not found" % name)
            c = self.d["consts"][name]
            self._cv[name] = ConstEval(self, c["body"], c["promoted"]).run()
        return self._cv[name]

    def has_const(self, name):
        return self._const_alias(name) in self.d["consts"]

    def _const_alias(self, name):
        """A named constant that was moved to another module (`engine::MATE_SCORE` -> `search::MATE_SCORE`,
        re-exported): when the reference path is gone and exactly one constant of the crate has that last
        path segment, it is that constant."""
        if name in self.d["consts"]:
            return name
        base = name.rsplit("::", 1)[-1]
        cands = [n for n in self.d["consts"] if n.rsplit("::", 1)[-1] == base and "{" not in n]
        return cands[0] if len(cands) == 1 else name

    def promoted_value(self, fn, idx):
        key = "%s::{promoted#%d}" % (fn, idx)
        if key not in self._cv:
            if key in self.d["bodies"]:
                self._cv[key] = ConstEval(self, self.d["bodies"][key], None, owner=fn).run()
            else:
                # promoted of a const item
                c = self.d["consts"].get(fn)
                if c is None or idx >= len(c["promoted"]):
                    raise AnchorMissing("promoted %s not found" % key)
                self._cv[key] = ConstEval(self, c["promoted"][idx], c["promoted"]).run()
        return self._cv[key]


class ConstEval:
    """Mini interpreter for const / promoted initializer bodies (aggregates, literals, casts,
    arithmetic on literals, references to other named consts and promoteds)."""

    def __init__(self, facts, body, promoted_list, owner=None):
        self.facts, self.body, self.promoted_list, self.owner = facts, body, promoted_list, owner
        self.env = {}

    def op(self, o):
        k = o["k"]
        if k in ("copy", "move"):
            return self.place(o["place"])
        if k == "const":
            if "val" in o:
                return scalar_value(o)
            if "str" in o:
                return o["str"]
            if "promoted" in o:
                if self.promoted_list is not None:
                    return ConstEval(self.facts, self.promoted_list[o["promoted"]], self.promoted_list).run()
                return self.facts.promoted_value(o["def"], o["promoted"])
            if "def" in o and self.facts.has_const(o["def"]):
                return self.facts.const_value(o["def"])
            if "fn" in o:
                return ("fn", o["fn"])
            if o["ty"] == "()":
                return ()
            return ("opaque", o["text"])
        return ("opaque", str(o))

    def place(self, p):
        v = self.env.get(p["local"], ("uninit",))
        for e in p["proj"]:
            k = e["k"]
            if k == "deref":
                continue  # references are modelled as the value itself
            if k == "field":
                if isinstance(v, tuple) and v and v[0] == "adt":
                    v = v[3][e["i"]]
                elif isinstance(v, (tuple, list)):
                    v = v[e["i"]]
                else:
                    return ("opaque", "field of %r" % (v,))
            elif k == "cindex":
                v = v[e["offset"]]
            elif k == "downcast":
                continue
            else:
                return ("opaque", "proj")
        return v

    def rv(self, rv):
        k = rv["k"]
        if k == "use":
            return self.op(rv["op"])
        if k == "ref":
            return self.place(rv["place"])
        if k == "aggregate":
            fs = tuple(self.op(f) for f in rv["fields"])
            if rv["agg"] == "adt":
                return ("adt", rv["adt"], rv["variant"], fs)
            if rv["agg"] == "array":
                return list(fs)
            return fs
        if k == "cast":
            return self.op(rv["op"])
        if k == "unop":
            a = self.op(rv["a"])
            if rv["op"] == "Neg" and isinstance(a, (int, float)):
                return -a
            if rv["op"] == "Not" and isinstance(a, bool):
                return not a
            return ("opaque", "unop")
        if k == "binop":
            a, b = self.op(rv["a"]), self.op(rv["b"])
            r = fold_binop(rv["op"], a, b)
            if r is None:
                return ("opaque", "binop")
            return r
        if k == "repeat":
            try:
                n = int(str(rv["n"]).split("_")[0])
            except ValueError:
                return ("opaque", "repeat")
            return [self.op(rv["op"])] * n
        return ("opaque", k)

    def run(self):
        bb, steps = 0, 0
        blocks = self.body["blocks"]
        while steps < 10000:
            steps += 1
            blk = blocks[bb]
            for st in blk["stmts"]:
                if st["k"] != "assign":
                    continue
                p = st["place"]
                val = self.rv(st["rv"])
                if not p["proj"]:
                    self.env[p["local"]] = val
                else:
                    # field-wise initialisation of a tuple from checked arithmetic etc.: keep simple
                    self.env[p["local"]] = ("opaque", "partial")
            t = blk["term"]
            if t["k"] == "return":
                return self.env.get(0, ("uninit",))
            if t["k"] in ("goto", "assert", "drop"):
                bb = t["target"]
                continue
            return ("opaque", "control flow in const")
        return ("opaque", "too long")


def scalar_value(o):
    ty = o["ty"]
    v = o["val"]
    if ty == "bool":
        return bool(v)
    if ty == "f64":
        import struct
        return struct.unpack("<d", struct.pack("<Q", v))[0]
    if ty == "f32":
        import struct
        return struct.unpack("<f", struct.pack("<I", v))[0]
    if ty == "char":
        return chr(v)
    return v


def fold_binop(op, a, b):
    if isinstance(a, tuple) or isinstance(b, tuple):
        return None
    if not isinstance(a, (int, float)) or not isinstance(b, (int, float)):
        if op == "Eq":
            return a == b
        if op == "Ne":
            return a != b
        return None
    base = op.replace("WithOverflow", "").replace("Unchecked", "")
    try:
        if base == "Add":
            r = a + b
        elif base == "Sub":
            r = a - b
        elif base == "Mul":
            r = a * b
        elif base == "Div":
            if isinstance(a, int) and isinstance(b, int):
                if b == 0:
                    return None
                q = abs(a) // abs(b)
                r = q if (a >= 0) == (b >= 0) else -q
            else:
                r = a / b
        elif base == "Rem":
            if b == 0:
                return None
            r = abs(a) % abs(b)
            r = r if a >= 0 else -r
        elif base == "Eq":
            r = a == b
        elif base == "Ne":
            r = a != b
        elif base == "Lt":
            r = a < b
        elif base == "Le":
            r = a <= b
        elif base == "Gt":
            r = a > b
        elif base == "Ge":
            r = a >= b
        elif base == "BitXor":
            r = a ^ b
        elif base == "BitAnd":
            r = a & b
        elif base == "BitOr":
            r = a | b
        else:
            return None
    except TypeError:
        return None
    if op.endswith("WithOverflow"):
        return (r, False)
    return r


# --------------------------------------------------------------------------------------------
INT_RANGES = {
    "u8": (0, 2**8 - 1), "u16": (0, 2**16 - 1), "u32": (0, 2**32 - 1), "u64": (0, 2**64 - 1),
    "u128": (0, 2**128 - 1), "usize": (0, 2**64 - 1),
    "i8": (-2**7, 2**7 - 1), "i16": (-2**15, 2**15 - 1), "i32": (-2**31, 2**31 - 1),
    "i64": (-2**63, 2**63 - 1), "i128": (-2**127, 2**127 - 1), "isize": (-2**63, 2**63 - 1),
}


class Body:
    def __init__(self, facts, d, dead_edges=()):
        self.facts = facts
        self.d = d
        self.dead_edges = frozenset(dead_edges)
        self.name = d["name"]
        self.blocks = d["blocks"]
        self.n = len(self.blocks)
        self.locals = d["locals"]
        self.arg_count = d["arg_count"]
        self.file = d["span"]["file"]
        self.names = {}        # local -> user name
        self.by_name = defaultdict(list)
        self.upvar_names = {}  # (field index of _1) -> name, for closures
        for dbg in d["debug"]:
            v = dbg["value"]
            if "local" in v:
                if not v["proj"]:
                    self.names.setdefault(v["local"], dbg["name"])
                    self.by_name[dbg["name"]].append(v["local"])
                else:
                    for e in v["proj"]:
                        if e["k"] == "field":
                            self.upvar_names[e["i"]] = dbg["name"]
                            break
        self.normal = [i for i in range(self.n) if not self.blocks[i]["cleanup"]]
        self.succ = {i: [s_ for s_ in self._succ(i) if (i, s_) not in self.dead_edges] for i in self.normal}
        self.pred = defaultdict(list)
        for a, ss in self.succ.items():
            for s_ in ss:
                self.pred[s_].append(a)
        self.reachable = self._reach(0)
        self._dom = None
        self._pdom = None
        self._rd = None

    # ---- basic structure ---------------------------------------------------------------------
    def _succ(self, i):
        t = self.blocks[i]["term"]
        k = t["k"]
        if k == "goto":
            return [t["target"]]
        if k == "switch":
            out = []
            for _, b in t["cases"]:
                if b not in out:
                    out.append(b)
            if t["otherwise"] not in out:
                out.append(t["otherwise"])
            # drop edges into `unreachable` blocks (exhaustive matches)
            return [b for b in out if self.blocks[b]["term"]["k"] != "unreachable"]
        if k in ("call", "assert", "drop"):
            return [t["target"]] if t.get("target") is not None else []
        if k == "otherterm":
            return [b for b in t.get("succ", []) if not self.blocks[b]["cleanup"]]
        return []

    def restrict(self, dead_edges):
        """The same body with some CFG edges declared infeasible (specialisation under a hypothesis):
        block and statement numbering is unchanged, reachability, dominance and reaching definitions
        are those of the pruned graph."""
        dead = set(self.dead_edges) | set(dead_edges)
        if dead == set(self.dead_edges):
            return self
        return Body(self.facts, self.d, dead)

    def term(self, bb):
        return self.blocks[bb]["term"]

    def stmts(self, bb):
        return self.blocks[bb]["stmts"]

    def local_named(self, name, nth=0):
        ls = self.by_name.get(name)
        if not ls:
            raise AnchorMissing("no local named `%s` in %s" % (name, self.name))
        return ls[nth]

    def locals_named(self, name):
        return list(self.by_name.get(name, []))

    def local_ty(self, l):
        return self.locals[l]["ty"]

    def lname(self, l):
        return self.names.get(l, "_%d" % l)

    def return_blocks(self):
        return [i for i in self.normal if self.term(i)["k"] == "return" and i in self.reachable]

    def line(self, loc):
        bb, i = loc
        st = self.stmts(bb)
        sp = st[i]["span"] if i < len(st) else self.term(bb)["span"]
        return sp["line"]

    def where(self, loc):
        bb, i = loc
        st = self.stmts(bb)
        sp = st[i]["span"] if i < len(st) else self.term(bb)["span"]
        return "%s:%d" % (sp["file"], sp["line"])

    def term_loc(self, bb):
        return (bb, len(self.stmts(bb)))

    def text_at(self, loc):
        bb, i = loc
        st = self.stmts(bb)
        if i < len(st):
            s_ = st[i]
            if s_["k"] == "assign":
                return "%s = %s" % (show.place_s(s_["place"]), show.rv_s(s_["rv"]))
            return s_["k"]
        return show.term_s(self.term(bb))

    # ---- reachability -----------------------------------------------------------------------
    def _reach(self, start, removed_nodes=(), removed_edges=()):
        seen = set()
        if start in removed_nodes:
            return seen
        dq = deque([start])
        seen.add(start)
        while dq:
            a = dq.popleft()
            for b in self.succ.get(a, []):
                if b in seen or b in removed_nodes or (a, b) in removed_edges:
                    continue
                seen.add(b)
                dq.append(b)
        return seen

    def reach_from(self, start, removed_nodes=(), removed_edges=()):
        return self._reach(start, set(removed_nodes), set(removed_edges))

    def reaches(self, a, b, removed_nodes=(), removed_edges=()):
        """Is there a path of >= 1 edges from block a to block b?"""
        rn, re_ = set(removed_nodes), set(removed_edges)
        seen = set()
        dq = deque()
        for s_ in self.succ.get(a, []):
            if s_ not in rn and (a, s_) not in re_ and s_ not in seen:
                seen.add(s_)
                dq.append(s_)
        while dq:
            x = dq.popleft()
            if x == b:
                return True
            for y in self.succ.get(x, []):
                if y in seen or y in rn or (x, y) in re_:
                    continue
                seen.add(y)
                dq.append(y)
        return b in seen

    def node_dominates(self, a, b):
        """Every path entry -> b passes through block a."""
        if a == b:
            return True
        return b not in self._reach(0, {a}, ())

    def edge_dominates(self, edge, b):
        """Every path entry -> b passes through the CFG edge (x, y)."""
        return b not in self._reach(0, (), {edge})

    def must_pass(self, frm, to, through_nodes=(), through_edges=()):
        """Every path frm -> to (>= 1 edge) passes one of the given nodes/edges."""
        return not self.reaches(frm, to, through_nodes, through_edges)

    # ---- dominators --------------------------------------------------------------------------
    def dominators(self):
        if self._dom is None:
            self._dom = self._idom_sets(self.succ, self.pred, 0, self.reachable)
        return self._dom

    @staticmethod
    def _idom_sets(succ, pred, entry, nodes):
        nodes = set(nodes)
        dom = {n: set(nodes) for n in nodes}
        dom[entry] = {entry}
        changed = True
        order = list(nodes)
        while changed:
            changed = False
            for n in order:
                if n == entry:
                    continue
                ps = [p for p in pred.get(n, []) if p in nodes]
                if not ps:
                    new = {n}
                else:
                    new = set.intersection(*(dom[p] for p in ps)) | {n}
                if new != dom[n]:
                    dom[n] = new
                    changed = True
        return dom

    def dominates(self, a, b):
        return a in self.dominators().get(b, ())

    def postdominators(self):
        """Post-dominator sets w.r.t. normal completion (`return` blocks are the exits; blocks
        that end in a diverging call or panic are ignored: they are not normal completion)."""
        if self._pdom is None:
            EXIT = -1
            rsucc = defaultdict(list)  # reversed graph: succ = preds
            rpred = defaultdict(list)
            # only nodes that can reach a return
            rets = self.return_blocks()
            can = set(rets)
            dq = deque(rets)
            while dq:
                x = dq.popleft()
                for p in self.pred.get(x, []):
                    if p not in can and p in self.reachable:
                        can.add(p)
                        dq.append(p)
            for a in can:
                for b in self.succ.get(a, []):
                    if b in can:
                        rsucc[b].append(a)
                        rpred[a].append(b)
            for r in rets:
                rsucc[EXIT].append(r)
                rpred[r].append(EXIT)
            self._pdom = self._idom_sets(rsucc, rpred, EXIT, can | {EXIT})
            self._can_return = can
        return self._pdom

    def postdominates(self, a, b):
        """Every normally-completing path from b passes through a."""
        pd = self.postdominators()
        return a in pd.get(b, ())

    def control_deps(self, b):
        """Set of (switch block A, successor S) edges that b is control dependent on."""
        pd = self.postdominators()
        out = set()
        for a in self.normal:
            ss = self.succ.get(a, [])
            if len(ss) < 2:
                continue
            for s_ in ss:
                if s_ in pd and b in pd.get(s_, ()) and not (a != b and b in pd.get(a, ())):
                    out.add((a, s_))
        return out

    # ---- loops -------------------------------------------------------------------------------
    def back_edges(self):
        dom = self.dominators()
        return [(a, b) for a in self.reachable for b in self.succ.get(a, []) if b in dom.get(a, ())]

    def natural_loop(self, header):
        body = {header}
        for a, b in self.back_edges():
            if b != header:
                continue
            st = [a]
            while st:
                x = st.pop()
                if x in body:
                    continue
                body.add(x)
                st.extend(self.pred.get(x, []))
        return body

    def loops(self):
        hs = sorted({b for _, b in self.back_edges()})
        return {h: self.natural_loop(h) for h in hs}

    # ---- iteration helpers -----------------------------------------------------------------
    def iter_stmts(self):
        for bb in self.normal:
            if bb not in self.reachable:
                continue
            for i, st in enumerate(self.stmts(bb)):
                yield (bb, i), st

    def iter_calls(self, callee=None, suffix=None):
        """Yield (bb, term) of call terminators on the normal CFG, optionally filtered by exact
        callee path / resolved path, or by path suffix."""
        for bb in self.normal:
            if bb not in self.reachable:
                continue
            t = self.term(bb)
            if t["k"] != "call":
                continue
            names = {t.get("callee"), t.get("resolved")}
            if callee is not None and callee not in names:
                continue
            if suffix is not None and not any(n and n.endswith(suffix) for n in names):
                continue
            yield bb, t

    def calls_to(self, callee):
        return list(self.iter_calls(callee=callee))

    # ---- reaching definitions ----------------------------------------------------------------
    def reaching(self):
        if self._rd is None:
            self._rd = ReachingDefs(self)
        return self._rd


def callee_of(t):
    return t.get("resolved") or t.get("callee")


def is_mut_ref_ty(ty):
    return ty.startswith("&mut ")


class ReachingDefs:
    """Reaching definitions per *variable key*: a local `l`, or ("mem", l) for the pointee of a
    `&mut` local.  Definition sites:
      whole   : assignment / call destination to the bare local      (kill + gen)
      partial : assignment to a projection of the local               (gen)
      borrow  : creation of `&mut` to (a projection of) the local     (gen)   [Rust's aliasing
                rules make every later mutation through that borrow invisible until it ends]
      mem     : write through `(*l)...`, `&mut (*l)...` reborrow, or `l` itself passed to a call
    The pseudo definition ("entry",) reaches from function entry."""

    ENTRY = ("entry",)

    def __init__(self, body):
        self.b = body
        self.sites = defaultdict(list)   # key -> [(loc, kind)]
        self.site_index = {}             # (key, loc) -> bit
        self._collect()
        self._solve()

    def _add(self, key, loc, kind):
        self.sites[key].append((loc, kind))

    def _collect(self):
        b = self.b
        for bb in b.normal:
            if bb not in b.reachable:
                continue
            for i, st in enumerate(b.stmts(bb)):
                loc = (bb, i)
                if st["k"] == "assign":
                    self._def_place(st["place"], loc)
                    rv = st["rv"]
                    if rv["k"] in ("ref", "rawptr") and rv.get("mut", rv["k"] == "rawptr"):
                        p = rv["place"]
                        if p["proj"] and p["proj"][0]["k"] == "deref":
                            self._add(("mem", p["local"]), loc, "borrow")
                        else:
                            self._add(p["local"], loc, "borrow")
                elif st["k"] == "setdiscr":
                    self._def_place(st["place"], loc, force_partial=True)
            t = b.term(bb)
            loc = b.term_loc(bb)
            if t["k"] == "call":
                self._def_place(t["dest"], loc)
                for a in t["args"]:
                    if a["k"] in ("copy", "move") and not a["place"]["proj"]:
                        l = a["place"]["local"]
                        if is_mut_ref_ty(b.local_ty(l)):
                            self._add(("mem", l), loc, "mem")

    def _def_place(self, p, loc, force_partial=False):
        l = p["local"]
        if not p["proj"] and not force_partial:
            self._add(l, loc, "whole")
        elif p["proj"] and p["proj"][0]["k"] == "deref":
            self._add(("mem", l), loc, "mem")
        else:
            self._add(l, loc, "partial")

    def _solve(self):
        b = self.b
        # bit numbering
        bit = 0
        self.bits_of_key = defaultdict(int)
        self.entry_bit = {}
        self.bit_info = {}
        keys = set(self.sites)
        for l in range(len(b.locals)):
            keys.add(l)
            if is_mut_ref_ty(b.local_ty(l)):
                keys.add(("mem", l))
        for key in keys:
            self.entry_bit[key] = bit
            self.bit_info[bit] = (key, self.ENTRY, "entry")
            self.bits_of_key[key] |= 1 << bit
            bit += 1
            for loc, kind in self.sites.get(key, []):
                if (key, loc) in self.site_index:
                    continue
                self.site_index[(key, loc)] = bit
                self.bit_info[bit] = (key, loc, kind)
                self.bits_of_key[key] |= 1 << bit
                bit += 1
        # per-location transfer
        self.loc_effects = defaultdict(list)  # loc -> [(key, kind)]
        for key, lst in self.sites.items():
            for loc, kind in lst:
                self.loc_effects[loc].append((key, kind))
        entry_state = 0
        for key in keys:
            entry_state |= 1 << self.entry_bit[key]
        self.IN = {bb: 0 for bb in b.normal}
        self.IN[0] = entry_state
        work = deque([0])
        inq = {0}
        while work:
            bb = work.popleft()
            inq.discard(bb)
            st = self._flow_block(bb, self.IN[bb])
            for s_ in b.succ.get(bb, []):
                new = self.IN[s_] | st
                if new != self.IN[s_]:
                    self.IN[s_] = new
                    if s_ not in inq:
                        work.append(s_)
                        inq.add(s_)

    def _apply(self, state, loc):
        for key, kind in self.loc_effects.get(loc, ()):
            bitn = self.site_index[(key, loc)]
            if kind == "whole":
                state &= ~self.bits_of_key[key]
            state |= 1 << bitn
        return state

    def _flow_block(self, bb, state):
        n = len(self.b.stmts(bb))
        for i in range(n + 1):
            state = self._apply(state, (bb, i))
        return state

    def state_before(self, loc):
        bb, idx = loc
        state = self.IN.get(bb, 0)
        for i in range(idx):
            state = self._apply(state, (bb, i))
        return state

    def defs(self, key, loc):
        """Definitions of `key` reaching the point just before `loc`: frozenset of (loc, kind)."""
        state = self.state_before(loc) & self.bits_of_key.get(key, 0)
        out = set()
        bitn = 0
        while state:
            if state & 1:
                _, dloc, kind = self.bit_info[bitn]
                out.add((dloc, kind))
            state >>= 1
            bitn += 1
        return frozenset(out)

    def all_sites(self, key):
        return list(self.sites.get(key, []))


# --------------------------------------------------------------------------------------------
def _whole_defs(body, l):
    return [(loc, k) for loc, k in body.reaching().all_sites(l) if k == "whole"]


def _through_copies(body, l):
    """Follow `x = move y` when EVERY definition of x is that same copy (a dispatch block duplicated by
    jump threading defines its locals once per copy)."""
    for _ in range(6):
        defs = _whole_defs(body, l)
        if not defs or len(body.reaching().all_sites(l)) != len(defs):
            return l
        srcs = set()
        for (bb, i), _k in defs:
            st = body.stmts(bb)
            if i >= len(st):
                return l
            rv = st[i]["rv"]
            if rv["k"] == "use" and rv["op"]["k"] in ("copy", "move") and not rv["op"]["place"]["proj"]:
                srcs.add(rv["op"]["place"]["local"])
            else:
                return l
        if len(srcs) != 1:
            return l
        l = next(iter(srcs))
    return l


def alias_of(body, l, depth=0):
    """Follow single-definition temporaries syntactically.

    Returns (root_local, mode, proj):
      mode 'val'    : local `l` holds the same value as `root_local` (copy/move/reborrow chain)
      mode 'ref'    : `l` holds a reference to the place `root_local.proj`
      mode 'ptrref' : `l` holds a reference to the place `(*root_local).proj`"""
    if depth > 8:
        return (l, "val", [])
    defs = _whole_defs(body, l)
    sites = body.reaching().all_sites(l)
    if len(defs) != 1 or len(sites) != 1:
        return (l, "val", [])
    (bb, i), _ = defs[0]
    st = body.stmts(bb)
    if i >= len(st):
        return (l, "val", [])
    rv = st[i]["rv"]
    if rv["k"] == "use" and rv["op"]["k"] in ("copy", "move") and not rv["op"]["place"]["proj"]:
        return alias_of(body, rv["op"]["place"]["local"], depth + 1)
    if rv["k"] == "use" and rv["op"]["k"] in ("copy", "move") and rv["op"]["place"]["proj"]:
        # a value taken back out of a wrapper it was moved into: `x = Some(v); .. y = (x as Some).0`
        # is the object v.  A downcast to variant V can only read a value built as V, so among several
        # definitions of the wrapper (Some(..) on one path, None on another) only the V-literals count.
        pp = rv["op"]["place"]
        pj = pp["proj"]
        if pj[-1]["k"] == "field" and all(e["k"] in ("downcast", "field") for e in pj) and len(pj) <= 2:
            variant = pj[0].get("variant") if pj[0]["k"] == "downcast" else None
            r, mode, pr = alias_of(body, _through_copies(body, pp["local"]), depth + 1)
            r = _through_copies(body, r) if mode == "val" and not pr else r
            if mode == "val" and not pr:
                cands = []
                for (dbb, di), k in _whole_defs(body, r):
                    dst = body.stmts(dbb)
                    if di < len(dst) and dst[di]["rv"]["k"] == "aggregate" and dst[di]["rv"].get("agg") in ("adt", "tuple"):
                        if variant is None or dst[di]["rv"].get("variant") == variant:
                            cands.append(dst[di]["rv"])
                    elif di < len(dst) and dst[di]["rv"]["k"] == "use" and dst[di]["rv"]["op"]["k"] in ("copy", "move") and not dst[di]["rv"]["op"]["place"]["proj"]:
                        # wrapper copied from another local with its own definitions: follow one level
                        r2 = dst[di]["rv"]["op"]["place"]["local"]
                        for (d2b, d2i), k2 in _whole_defs(body, r2):
                            d2 = body.stmts(d2b)
                            if d2i < len(d2) and d2[d2i]["rv"]["k"] == "aggregate" and d2[d2i]["rv"].get("agg") in ("adt", "tuple"):
                                if variant is None or d2[d2i]["rv"].get("variant") == variant:
                                    cands.append(d2[d2i]["rv"])
                if len(cands) == 1:
                    fi = pj[-1]["i"]
                    fs = cands[0]["fields"]
                    if fi < len(fs) and fs[fi]["k"] in ("copy", "move") and not fs[fi]["place"]["proj"]:
                        return alias_of(body, fs[fi]["place"]["local"], depth + 1)
        return (l, "val", [])
    if rv["k"] == "ref":
        p = rv["place"]
        if p["proj"] and p["proj"][0]["k"] == "deref":
            r, mode, proj = alias_of(body, p["local"], depth + 1)
            rest = p["proj"][1:]
            if mode == "val":
                if not rest:
                    return (r, "val", [])
                return (r, "ptrref", rest)
            return (r, mode, proj + rest)
        return (p["local"], "ref", p["proj"])
    return (l, "val", [])


def operand_alias(body, o):
    """alias_of for a call argument operand; None for constants / projected places."""
    if o["k"] not in ("copy", "move"):
        return None
    p = o["place"]
    if p["proj"]:
        return None
    return alias_of(body, p["local"])
