"""Token scans: how a loop walks a slice of tokens, whatever it is written with.

`while i + 1 < v.len() { v[i] .. v[i + 1] ..; i += k }`, `for w in v.windows(2) { w[0] .. w[1] }`,
`let mut it = v.iter().peekable(); while let Some(t) = it.next() { it.peek() .. it.next() }` and
`let mut it = v.iter(); while let Some(t) = it.next() { helper(&mut it) }` all read tokens at
positions relative to the position the iteration started at and then resume the scan some tokens
further.  `scan` computes, on any (possibly specialised) body,

  * for every token-valued expression the set of its *offsets* (0 = the token the iteration started
    at, 1 = the one after it, ...), and
  * the set of total *advances* with which an iteration can reach the loop header again,

by one forward pass over the loop body that counts cursor movements: `i = i + c` on a loop-carried
index that subscripts the token slice, `next()` on an iterator derived from the slice (`iter`,
`iter().peekable()`, `windows(n)`, `into_iter`), while `peek()` and `w[k]` on a window read without
moving.  Nothing here knows a function or variable name of any tree."""
from .mir import callee_of, ShapeNotRecognised
from .expr import Exprs, strip_refs, subexprs, data_slice, root_local
from .linear import linear

INT_TYS = ("usize", "u8", "u16", "u32", "u64", "isize", "i8", "i16", "i32", "i64")


def _peel(e):
    while e[0] in ("ref", "deref"):
        e = e[1]
    return e


def payload(e):
    """(call, ...) if e is `(call as Some).0` (through refs), else None."""
    e = _peel(e)
    if e[0] == "field" and e[2] == "0" and e[1][0] == "downcast" and e[1][2] == "Some" and _peel(e[1][1])[0] == "call":
        return _peel(e[1][1])
    return None


class Scan:
    def __init__(self, b, ex, src, header, loop, counters):
        self.b, self.ex, self.src, self.h, self.loop, self.counters = b, ex, src, header, loop, counters
        self.index_off = {}     # ('index', base, idx) expression -> set of offsets
        self.call_off = {}      # next()/peek() call expression -> set of offsets of the item it yields
        self.window = {}        # next() call expression on a windows(n) iterator -> n
        self.steps = set()      # total advances at the back edges (None: not a constant)
        self._run()

    # -- classification -------------------------------------------------------------------------
    def _from_src(self, e):
        return any(x == ("arg", self.src) for x in data_slice(self.ex, e, limit=4000))

    def _iter_call(self, bb):
        """('next'|'peek', width) if the call in bb moves / inspects an iterator over the token slice."""
        t = self.b.term(bb)
        c = callee_of(t) or ""
        kind = "next" if c.endswith("::next") else ("peek" if c.endswith("::peek") else None)
        if kind is None or not t["args"]:
            return None
        a = self.ex.call_args(bb)[0]
        sl = data_slice(self.ex, a, limit=4000)
        if not any(x == ("arg", self.src) for x in sl):
            return None
        width = 1
        for x in sl:
            if x[0] == "call" and x[1].endswith("<impl [T]>::windows") and len(x[2]) == 2:
                width = x[2][1][1] if x[2][1][0] == "const" else None
            elif x[0] == "call" and any(x[1].endswith(s) for s in ("::skip", "::step_by", "::rev", "::chunks", "::filter", "::skip_while", "::take_while")):
                return None     # not a plain left-to-right walk: fail closed (no offsets)
        return kind, width

    # -- the pass -------------------------------------------------------------------------------
    def _run(self):
        b, ex = self.b, self.ex
        IN = {self.h: frozenset([0])}
        work = [self.h]
        fuel = 5000
        while work:
            fuel -= 1
            if fuel < 0:
                # a cursor that keeps moving inside a nested loop: no constant advance per iteration
                self.steps = {None}
                return
            x = work.pop()
            st = IN[x]
            st = self._flow(x, st)
            for y in b.succ.get(x, []):
                if y not in self.loop:
                    continue
                if y == self.h:
                    self.steps |= set(st)
                    continue
                new = IN.get(y, frozenset()) | st
                if new != IN.get(y):
                    IN[y] = new
                    work.append(y)

    def _flow(self, bb, st):
        b, ex = self.b, self.ex
        for i, s in enumerate(b.stmts(bb)):
            if s["k"] != "assign":
                continue
            loc = (bb, i)
            p = s["place"]
            if not p["proj"] and p["local"] in self.counters:
                le = linear(ex.rvalue(s["rv"], loc))
                if le is not None and len(le[0]) == 1 and list(le[0].values()) == [1] and next(iter(le[0]))[0] == "var" and next(iter(le[0]))[1] == p["local"]:
                    st = frozenset((a + le[1]) if a is not None else None for a in st)
                else:
                    st = frozenset([None])
                continue
            e = ex.rvalue(s["rv"], loc)
            for x in subexprs(e):
                if x[0] == "index" and _peel(x[1]) == ("arg", self.src):
                    li = linear(x[2])
                    if li is None:
                        continue
                    vs = [t for t in li[0] if t[0] == "var" and t[1] in self.counters]
                    if len(li[0]) == 1 and len(vs) == 1 and li[0][vs[0]] == 1:
                        self.index_off.setdefault(x, set()).update((a + li[1]) if a is not None else None for a in st)
                    elif not li[0]:
                        pass    # absolute position: not relative to the scan
        t = b.term(bb)
        if t["k"] == "call":
            ic = self._iter_call(bb)
            if ic is not None:
                kind, width = ic
                ce = ex.call_expr(t, b.term_loc(bb))
                self.call_off.setdefault(ce, set()).update(st)
                if width != 1:
                    self.window[ce] = width
                if kind == "next":
                    st = frozenset((a + 1) if a is not None else None for a in st)
        return st

    # -- queries --------------------------------------------------------------------------------
    def token_offsets(self, e):
        """Offsets of the token that expression e *is* (through borrows), or None if e is not a token."""
        e = _peel(e)
        if e in self.index_off:
            return set(self.index_off[e])
        c = payload(e)
        if c is not None and c in self.call_off and c not in self.window:
            return set(self.call_off[c])
        if e[0] == "index" and e[2][0] == "const":
            c = payload(e[1])
            if c is not None and c in self.window:
                w = self.window[c]
                if w is not None and 0 <= e[2][1] < w:
                    return {(a + e[2][1]) if a is not None else None for a in self.call_off[c]}
        return None


def find_scan_loop(b, ex_plain, src):
    """(header, loop blocks, loop-carried index locals) of the loop that walks the token slice."""
    loops = b.loops()
    rd = b.reaching()
    best = None
    for h, body_ in loops.items():
        # loop-carried integer locals: defined both outside and inside the loop
        cs = set()
        for l in range(len(b.locals)):
            if b.local_ty(l) not in INT_TYS:
                continue
            sites = [loc for loc, k in rd.all_sites(l) if k == "whole"]
            if any(loc[0] in body_ for loc in sites) and any(loc[0] not in body_ for loc in sites):
                cs.add(l)
        moves = False
        for bb in body_:
            t = b.term(bb)
            if t["k"] == "call" and (callee_of(t) or "").endswith("::next"):
                a = ex_plain.call_args(bb)
                if a and any(x == ("arg", src) for x in data_slice(ex_plain, a[0], limit=4000)):
                    moves = True
        idx = False
        if cs:
            exk = Exprs(b, keep=cs)
            for loc, s in b.iter_stmts():
                if loc[0] in body_ and s["k"] == "assign":
                    for x in subexprs(exk.rvalue(s["rv"], loc)):
                        if x[0] == "index" and _peel(x[1]) == ("arg", src) and any(y[0] == "var" and y[1] in cs for y in subexprs(x[2])):
                            idx = True
        if moves or idx:
            used = set()
            if idx:
                used = cs
            if best is None or len(body_) > len(best[1]):
                best = (h, body_, used)
    if best is None:
        raise ShapeNotRecognised("%s: no loop walks the token slice (neither an index nor an iterator over it)" % b.name)
    return best


def parsed_tokens(facts, e, depth=0):
    """Arguments of every `str::parse` whose result flows into e, looking through `Option::map(f)`
    with a crate-local closure (the closure body applied to the payload)."""
    from .strsym import apply_closure
    out = []
    if depth > 4:
        return out
    for x in subexprs(e):
        if x[0] == "call" and x[1].endswith("<impl str>::parse") and x[2]:
            out.append(x[2][0])
        elif x[0] == "call" and x[1].endswith("Option::<T>::map") and len(x[2]) == 2:
            opt, clo = x[2]
            v = apply_closure(facts, clo, [("field", ("downcast", opt, "Some"), "0")])
            if v is not None:
                out += parsed_tokens(facts, v, depth + 1)
    return out


def keyword_tests(sc):
    """{literal: (switch bb, true target, false target, offsets of the token compared, discriminant)}
    for every `token == "literal"` test in the scan loop."""
    b, ex = sc.b, sc.ex
    out = {}
    for s in sorted(sc.loop):
        if s not in b.reachable or b.term(s)["k"] != "switch":
            continue
        d = ex.switch_discr(s)
        if d[0] == "bin" and d[1] == "Eq":
            for x, k in ((strip_refs(d[2]), strip_refs(d[3])), (strip_refs(d[3]), strip_refs(d[2]))):
                if k[0] == "str":
                    offs = sc.token_offsets(x)
                    if offs is None:
                        continue
                    t = b.term(s)
                    ft = [tg for v, tg in t["cases"] if v == 0]
                    out[k[1]] = (s, t["otherwise"], ft[0] if ft else None, offs, strip_refs(d))
    return out


def token_scan(b):
    """(Scan, Exprs) of the loop of b that walks its `&[&str]` parameter."""
    src = [i for i in range(1, b.arg_count + 1) if b.local_ty(i) in ("&[&str]", "&std::vec::Vec<&str>")]
    if len(src) != 1:
        raise ShapeNotRecognised("%s: expected one token-slice parameter, found %d" % (b.name, len(src)))
    h, loop, counters = find_scan_loop(b, Exprs(b), src[0])
    exk = Exprs(b, keep=counters)
    return Scan(b, exk, src[0], h, loop, counters), exk
