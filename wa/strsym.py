"""Symbolic rendering of formatted strings.

A `format!` whose argument is itself a string (a literal chosen by an `if`, the result of another
`format!`, the return value of an inlined helper) prints the same bytes as the format with that text
spliced into the template.  This module decides *what text a format site can produce* instead of
what its template constant looks like:

  fmt_sites(body)              [(bb, top-level template)] of every `fmt::Arguments` construction
  renderings(body, bb)         [Rendering] the alternatives of the site in block bb: string-valued
                               holes with several (acyclic) reaching definitions are split by
                               restricting the body to one definition at a time (Body.restrict), so
                               every alternative comes with the body/Exprs on which exactly that text
                               is produced (its guards are the restricted body's dominating facts,
                               its intervals those of Intervals(r.body)).
  flatten(ex, e)               pieces of one string-valued expression: ('lit', s) | ('hole', ty, expr)
  fold_piece(facts, b, ex, e)  a string built by appending one formatted piece per item of an
                               iteration (accumulating loop or iterator chain `.map(..).collect()`).
"""
import ast
from .mir import callee_of
from .expr import Exprs, strip_refs, subexprs

STRINGY = ("&str", "std::string::String", "&std::string::String", "&&str", "&mut std::string::String")

# calls that return the text of their (first) argument unchanged
_IDENT_SUFFIX = (
    "<str as std::string::ToString>::to_string", "<std::string::String as std::string::ToString>::to_string",
    "<std::string::String as std::convert::From<&str>>::from", "<std::string::String as std::convert::From<&std::string::String>>::from",
    "<str as std::borrow::ToOwned>::to_owned", "alloc::str::<impl str>::to_owned", "std::str::<impl str>::to_owned",
    "<std::string::String as std::clone::Clone>::clone", "std::string::String::as_str",
    "<std::string::String as std::ops::Deref>::deref", "<std::string::String as std::convert::AsRef<str>>::as_ref",
    "<std::string::String as std::borrow::Borrow<str>>::borrow", "std::string::String::into_boxed_str",
)


def _callee_name(e):
    return e[1] if e[0] == "call" else ""


def decode_pieces(text):
    """b"\\x07info pv\\xc0..." -> ['info pv', None, ...] (None = the next positional `{}`);
    returns None when it is not a template or uses explicit positions / format specs."""
    if not isinstance(text, str) or not text.startswith('b"'):
        return None
    try:
        raw = ast.literal_eval(text)
    except (SyntaxError, ValueError):
        return None
    out, i = [], 0
    while i < len(raw):
        c = raw[i]
        if c == 0:
            break
        if c & 0x80:
            if c != 0xC0:
                return None
            out.append(None)
            i += 1
            continue
        lit = raw[i + 1:i + 1 + c]
        if len(lit) != c:
            return None
        try:
            out.append(lit.decode("utf-8"))
        except UnicodeDecodeError:
            return None
        i += 1 + c
    return out


def _display_ty(callee_full):
    if callee_full and "::<" in callee_full:
        return callee_full[callee_full.rindex("::<") + 3:-1]
    return None


def _is_arguments(e):
    c = _callee_name(e)
    return "fmt::Arguments" in c and c.rsplit("::", 1)[-1] in ("new", "new_const", "new_v1", "from_str", "from_str_nonconst")


def flatten(ex, e, depth=0):
    """Pieces of the text a string-valued (or fmt::Arguments-valued) expression denotes."""
    e = strip_refs(e)
    if depth > 8:
        return [("hole", None, e)]
    if e[0] == "str":
        return [("lit", e[1])] if e[1] else []
    if e[0] != "call":
        return [("hole", None, e)]
    c = e[1]
    args = e[2]
    if c.startswith("std::hint::must_use") and len(args) == 1:
        return flatten(ex, args[0], depth + 1)
    if c in ("std::fmt::format", "alloc::fmt::format") and len(args) == 1:
        return flatten(ex, args[0], depth + 1)
    if c == "std::string::String::new" and not args:
        return []
    if len(args) == 1 and any(c == s or c.endswith(s) for s in _IDENT_SUFFIX):
        return flatten(ex, args[0], depth + 1)
    if len(args) == 1 and c.endswith("ToString>::to_string"):
        # x.to_string() is the text of x when x is a string, else its Display rendering (a hole)
        sub = flatten(ex, args[0], depth + 1)
        if strip_refs(args[0])[0] == "str" or any(p[0] == "lit" or p[1] in STRINGY for p in sub):
            return sub
        return [("hole", None, strip_refs(args[0]))]
    if _is_arguments(e):
        t = strip_refs(args[0])
        if t[0] == "str":
            return [("lit", t[1])] if t[1] else []
        pcs = decode_pieces(t[1]) if t[0] == "opaque" else None
        if pcs is None:
            return [("hole", None, e)]
        arr = strip_refs(args[1]) if len(args) > 1 else ("agg", "array", None, ())
        items = arr[3] if arr[0] == "agg" and arr[1] == "array" else None
        if items is None or len(items) != sum(1 for p in pcs if p is None):
            return [("hole", None, e)]
        out, k = [], 0
        for p in pcs:
            if p is not None:
                out.append(("lit", p))
                continue
            a = items[k]
            k += 1
            if a[0] == "call" and "fmt::rt::Argument" in a[1] and len(a[2]) == 1:
                kind = a[1].rsplit("::", 1)[-1]
                full = ex.b.term(a[3][0]).get("callee_full") if a[3] is not None else None
                ty = _display_ty(full)
                x = strip_refs(a[2][0])
                if kind == "new_display" and (ty in STRINGY or x[0] == "str"):
                    sub = flatten(ex, x, depth + 1)
                    for s in sub:
                        out.append(s if s[0] == "lit" or s[1] is not None else ("hole", ty, s[2]))
                else:
                    out.append(("hole", ty if kind == "new_display" else "%s:%s" % (kind, ty), x))
            else:
                out.append(("hole", None, a))
        return _merge(out)
    return [("hole", None, e)]


def _merge(pieces):
    out = []
    for p in pieces:
        if p[0] == "lit" and out and out[-1][0] == "lit":
            out[-1] = ("lit", out[-1][1] + p[1])
        else:
            out.append(p)
    return out


class Rendering:
    def __init__(self, body, ex, bb, pieces, chosen):
        self.body, self.ex, self.bb, self.pieces = body, ex, bb, _merge(pieces)
        self.chosen = chosen          # definition sites selected for this alternative
        self.loc = body.term_loc(bb)

    @property
    def template(self):
        return "".join(p[1] if p[0] == "lit" else "{}" for p in self.pieces)

    @property
    def holes(self):
        return [(p[1], p[2]) for p in self.pieces if p[0] == "hole"]

    def anchor(self):
        """The most specific location of this alternative (the last chosen definition, else the site)."""
        return self.chosen[-1] if self.chosen else self.loc


def fmt_sites(body):
    """[(bb, top-level template)] for every fmt::Arguments construction in the body."""
    ex = None
    res = []
    for bb, t in body.iter_calls():
        c = callee_of(t) or ""
        if "fmt::Arguments" not in c:
            continue
        if ex is None:
            ex = Exprs(body)
        e = ex.call_expr(t, body.term_loc(bb))
        if not _is_arguments(e):
            continue
        a0 = strip_refs(e[2][0])
        if a0[0] == "str":
            res.append((bb, a0[1]))
        elif a0[0] == "opaque":
            pcs = decode_pieces(a0[1])
            if pcs is not None:
                res.append((bb, "".join("{}" if p is None else p for p in pcs)))
    return res


def _split_candidate(body, pieces):
    """A ('var', l, defs) under a string-typed hole whose definitions are all whole, acyclic and >= 2."""
    for p in pieces:
        if p[0] != "hole" or not (p[1] in STRINGY or p[1] is None):
            continue
        for s in subexprs(p[2]):
            if s[0] != "var" or len(s[2]) < 2:
                continue
            if any(kind != "whole" for _, kind in s[2]):
                continue
            blocks = [d[0] for d, _ in s[2]]
            if len(set(blocks)) != len(blocks):
                continue
            if any(body.reaches(bk, bk) for bk in blocks):
                continue
            ty = body.local_ty(s[1])
            if p[1] is None and not (ty in STRINGY or ty.startswith("(")):
                continue
            return s
    return None


def renderings(body, bb, max_alt=16):
    """Alternatives of the format site (an `fmt::Arguments::new*` call) in block bb."""
    out = []

    def rec(b2, chosen, fuel):
        if bb not in b2.reachable:
            return
        ex = Exprs(b2)
        e = ex.call_expr(b2.term(bb), b2.term_loc(bb))
        pieces = flatten(ex, e)
        v = _split_candidate(b2, pieces) if fuel else None
        if v is None or len(out) >= max_alt:
            out.append(Rendering(b2, ex, bb, pieces, chosen))
            return
        subs = []
        for (dloc, kind) in sorted(v[2]):
            dead = set()
            for (d2, _) in v[2]:
                if d2 != dloc:
                    for p in b2.pred.get(d2[0], []):
                        dead.add((p, d2[0]))
            b3 = b2.restrict(dead)
            if bb not in b3.reachable or dloc[0] not in b3.reachable:
                # a definition that can only be followed by another one (sequential overwrites): edge
                # removal cannot isolate it; leave the hole unsplit (the caller sees `{}` and fails closed)
                subs = None
                break
            subs.append((b3, dloc))
        if not subs:
            out.append(Rendering(b2, ex, bb, pieces, chosen))
            return
        for b3, dloc in subs:
            rec(b3, chosen + [dloc], fuel - 1)

    rec(body, [], 4)
    return out


def fold_piece(facts, body, ex, e):
    """`e` is a string built from one formatted piece per item of an iteration.  Returns
    (item pieces, source expressions, (body, Exprs) the pieces live in) or None.  Two constructions
    are understood:
      * accumulation: `s = ""; loop { s = format!("{}<piece>", s, ..) }`  (s has an empty initial
        definition and one cyclic definition whose first hole is s itself);
      * iterator chain: `<iter>.map(|item| format!("<piece>", ..)).collect::<String>()`."""
    e = strip_refs(e)
    if e[0] == "var" and len(e[2]) == 2 and all(k == "whole" for _, k in e[2]):
        init = step = None
        for dloc, _ in e[2]:
            de = ex._def_expr(e[1], dloc)
            pcs = flatten(ex, de)
            if not pcs:
                init = dloc
            elif pcs[0][0] == "hole" and strip_refs(pcs[0][2])[0] == "var" and strip_refs(pcs[0][2])[1] == e[1]:
                step = (dloc, pcs[1:])
        if init is None or step is None:
            return None
        if not body.reaches(step[0][0], step[0][0]):
            return None
        return _merge(step[1]), [h[2] for h in step[1] if h[0] == "hole"], (body, ex)
    if e[0] == "call" and e[1].endswith("Iterator::collect") and len(e[2]) == 1:
        m = strip_refs(e[2][0])
        if m[0] == "call" and m[1].endswith("Iterator::map") and len(m[2]) == 2 and m[2][1][0] == "agg" and m[2][1][1] == "closure":
            cname = m[2][1][2]
            if not facts.has_body(cname):
                return None
            cb = facts.body(cname)
            cex = Exprs(cb)
            rets = cb.return_blocks()
            if len(rets) != 1:
                return None
            pcs = flatten(cex, cex.local(0, cb.term_loc(rets[0])))
            return _merge(pcs), [m[2][0]], (cb, cex)
    return None


def subst(e, m):
    """e with every sub-expression that is a key of m replaced (keys are whole expressions)."""
    if e in m:
        return m[e]
    if not isinstance(e, tuple):
        return e
    out = []
    for x in e:
        if isinstance(x, tuple) and x and isinstance(x[0], str):
            out.append(subst(x, m))
        elif isinstance(x, tuple):
            out.append(tuple(subst(y, m) if isinstance(y, tuple) and y and isinstance(y[0], str) else y for y in x))
        else:
            out.append(x)
    return tuple(out)


def apply_closure(facts, clo, args):
    """Value of calling closure aggregate `clo` = ('agg','closure',name,captures) on argument
    expressions: the closure body's (single, loop-free) return expression with its parameters
    replaced.  None when the body is not a plain expression of its parameters and captures."""
    if not (clo[0] == "agg" and clo[1] == "closure") or not facts.has_body(clo[2]):
        return None
    cb = facts.body(clo[2])
    if cb.loops() or cb.arg_count != 1 + len(args):
        return None
    rets = cb.return_blocks()
    if len(rets) != 1:
        return None
    cex = Exprs(cb)
    r = cex.local(0, cb.term_loc(rets[0]))
    caps = clo[3]
    m = {}
    for x in subexprs(r):
        if x[0] == "var":
            return None          # not a single expression (branches inside the closure)
        if x[0] == "field" and strip_refs(x[1]) == ("arg", 1):
            try:
                m[x] = ("captured", caps[int(x[2])])
            except (ValueError, IndexError):
                return None
    r = subst(r, m)
    if any(x == ("arg", 1) for x in subexprs(r)):
        return None              # the environment is used other than through a captured field
    m = {("arg", 2 + i): a for i, a in enumerate(args)}
    for x in subexprs(r):
        if x[0] == "captured":
            m[x] = x[1]
    return subst(r, m)


def option_cases(facts, e):
    """An expression that selects on an Option: `opt.map_or(d, f)`, `opt.map(f).unwrap_or(d)`.
    Returns (opt, value when None, value when Some) with f applied to the payload
    `(opt as Some).0`, or None."""
    e = strip_refs(e)
    if e[0] != "call":
        return None
    c, a = e[1], e[2]
    if c.endswith("Option::<T>::map_or") and len(a) == 3:
        opt, dflt, clo = a
    elif c.endswith("Option::<T>::unwrap_or") and len(a) == 2 and strip_refs(a[0])[0] == "call" and strip_refs(a[0])[1].endswith("Option::<T>::map") and len(strip_refs(a[0])[2]) == 2:
        opt, clo = strip_refs(a[0])[2]
        dflt = a[1]
    else:
        return None
    payload = ("field", ("downcast", opt, "Some"), "0")
    some = apply_closure(facts, clo, [payload])
    if some is None:
        return None
    return opt, dflt, some
