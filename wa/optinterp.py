"""Concrete evaluation of expressions that go through `Option` combinators and closures.

`*map.get(&k).unwrap_or(&0) >= 2`, `map.get(&k).copied().unwrap_or(0) >= 2`,
`map.get(&k).map_or(false, |&c| c >= 2)`, `matches!(map.get(&k), Some(&c) if c >= 2)` and
`if let Some(&c) = map.get(&k) { c >= 2 } else { false }` are the same predicate of the looked-up
entry.  A rule that instantiates such a predicate over a finite domain gives the lookup itself a
value (`NONE` or `some(v)`) and evaluates whatever combinator chain the source uses.

Values: ints / bools / strs / tuples as in wa/interp.py; Options are NONE or ("some", v); references are
transparent.  `Unknown` is raised when a needed leaf has no value (fail closed)."""
from .mir import fold_binop, INT_RANGES, ShapeNotRecognised
from .expr import Exprs, wrap
from .interp import Unknown

NONE = ("none",)
UNK = ("unknown",)


def some(v):
    return ("some", v)


def _is_opt(v):
    return v == NONE or (isinstance(v, tuple) and len(v) == 2 and v[0] == "some")


def _need(v, e):
    if v == UNK or (isinstance(v, tuple) and v and v[0] == "unknown"):
        raise Unknown(e)
    return v


def _suffix(name, *sfx):
    return any(name.endswith(s) for s in sfx)


def ev(e, env, facts=None, depth=0):
    if e in env:
        return _need(env[e], e)
    if depth > 40:
        raise Unknown(("depth", e))
    k = e[0]
    r = lambda x: ev(x, env, facts, depth + 1)
    if k in ("const", "float", "char", "str"):
        return e[1]
    if k == "unit":
        return ()
    if k in ("deref", "ref"):
        return r(e[1])
    if k == "bin":
        a, b = r(e[2]), r(e[3])
        v = fold_binop(e[1].replace("WithOverflow", ""), a, b)
        if v is None:
            raise Unknown(e)
        return v
    if k == "un":
        a = r(e[2])
        if e[1] == "Not":
            return (not a) if isinstance(a, bool) else ~a
        if e[1] == "Neg":
            return -a
        raise Unknown(e)
    if k == "cast":
        a = r(e[2])
        if e[1] in INT_RANGES and isinstance(a, (int, bool)):
            return wrap(e[1], int(a))
        raise Unknown(e)
    if k == "discr":
        v = r(e[1])
        if v == NONE:
            return 0
        if _is_opt(v):
            return 1
        if isinstance(v, bool):
            return int(v)
        raise Unknown(e)
    if k == "downcast":
        return r(e[1])
    if k == "field":
        base = r(e[1])
        if _is_opt(base) and base != NONE and e[2] == "0":
            return _need(base[1], e)
        if isinstance(base, tuple) and not _is_opt(base):
            try:
                return _need(base[int(e[2])], e)
            except (ValueError, IndexError):
                raise Unknown(e)
        raise Unknown(e)
    if k == "agg" and e[1] == "tuple":
        return tuple(r(x) for x in e[3])
    if k == "agg" and e[1] == "std::option::Option":
        return NONE if e[2] == "None" else some(r(e[3][0]))
    if k == "call":
        name = e[1]
        args = e[2]
        if _suffix(name, "Option::<T>::copied", "Option::<&T>::copied", "Option::<T>::cloned", "Option::<&T>::cloned", "Option::<T>::as_ref",
                   "Option::<T>::as_deref", "Option::<T>::as_mut"):
            return r(args[0])
        if _suffix(name, "Option::<T>::unwrap_or"):
            o = r(args[0])
            return r(args[1]) if o == NONE else _need(o[1], e)
        if _suffix(name, "Option::<T>::unwrap_or_default"):
            o = r(args[0])
            return 0 if o == NONE else _need(o[1], e)
        if _suffix(name, "Option::<T>::unwrap", "Option::<T>::expect"):
            o = r(args[0])
            if o == NONE:
                raise Unknown(("panics", e))
            return _need(o[1], e)
        if _suffix(name, "Option::<T>::is_some"):
            return r(args[0]) != NONE
        if _suffix(name, "Option::<T>::is_none"):
            return r(args[0]) == NONE
        if _suffix(name, "Option::<T>::map_or"):
            o = r(args[0])
            return r(args[1]) if o == NONE else call_closure(args[2], [o[1]], env, facts, depth + 1)
        if _suffix(name, "Option::<T>::is_some_and"):
            o = r(args[0])
            return False if o == NONE else call_closure(args[1], [o[1]], env, facts, depth + 1)
        if _suffix(name, "Option::<T>::is_none_or"):
            o = r(args[0])
            return True if o == NONE else call_closure(args[1], [o[1]], env, facts, depth + 1)
        if _suffix(name, "Option::<T>::map"):
            o = r(args[0])
            return NONE if o == NONE else some(call_closure(args[1], [o[1]], env, facts, depth + 1))
        if _suffix(name, "Option::<T>::filter"):
            o = r(args[0])
            return o if o != NONE and call_closure(args[1], [o[1]], env, facts, depth + 1) else NONE
        if _suffix(name, "Option::<T>::and_then"):
            o = r(args[0])
            return NONE if o == NONE else call_closure(args[1], [o[1]], env, facts, depth + 1)
        if _suffix(name, "Option::<T>::unwrap_or_else"):
            o = r(args[0])
            return call_closure(args[1], [], env, facts, depth + 1) if o == NONE else _need(o[1], e)
        if name == "std::cmp::max":
            return max(r(a) for a in args)
        if name == "std::cmp::min":
            return min(r(a) for a in args)
        if name.endswith("::abs") and len(args) == 1:
            return abs(r(args[0]))
        if name.endswith("PartialOrd>::ge") or name.endswith("::ge"):
            return r(args[0]) >= r(args[1])
        if name.endswith("PartialOrd>::gt") or name.endswith("::gt"):
            return r(args[0]) > r(args[1])
        if name.endswith("PartialOrd>::le") or name.endswith("::le"):
            return r(args[0]) <= r(args[1])
        if name.endswith("PartialOrd>::lt") or name.endswith("::lt"):
            return r(args[0]) < r(args[1])
        if facts is not None and facts.has_body(name):
            return call_body(facts, name, [r(a) for a in args], depth + 1)
        raise Unknown(e)
    raise Unknown(e)


def call_closure(f, argvals, env, facts, depth):
    """Apply a closure value ('agg','closure',name,captures) to concrete arguments."""
    if f[0] in ("ref", "deref"):
        return call_closure(f[1], argvals, env, facts, depth)
    if not (f[0] == "agg" and f[1] == "closure") or facts is None or not facts.has_body(f[2]):
        raise Unknown(f)
    caps = []
    for c in f[3]:
        try:
            caps.append(ev(c, env, facts, depth + 1))
        except Unknown:
            caps.append(UNK)
    return call_body(facts, f[2], [tuple(caps)] + list(argvals), depth + 1)


def call_body(facts, name, argvals, depth=0):
    if depth > 40:
        raise Unknown(("depth", name))
    b = facts.body(name)
    if b.loops():
        raise Unknown(("loop", name))
    ex = Exprs(b)
    env = {("arg", i + 1): v for i, v in enumerate(argvals)}
    rb, path = walk(b, ex, env, facts, depth=depth)
    if rb is None:
        raise Unknown(("diverges", name))
    return path_value(b, ex, path, env, facts, {0}, depth)


def path_value(b, ex, path, env, facts, carriers=(0,), depth=0):
    """Value of the function result on a concrete path: the last write to a result carrier."""
    val, found = None, False
    for pb in path:
        for i, st in enumerate(b.stmts(pb)):
            if st["k"] == "assign" and st["place"]["local"] in carriers and not st["place"]["proj"]:
                rv = st["rv"]
                if rv["k"] == "use" and rv["op"]["k"] in ("copy", "move") and not rv["op"]["place"]["proj"] and rv["op"]["place"]["local"] in carriers:
                    continue
                val = ev(ex.rvalue(rv, (pb, i)), env, facts, depth + 1)
                found = True
        t = b.term(pb)
        if t["k"] == "call" and t["dest"]["local"] in carriers and not t["dest"]["proj"]:
            val = ev(ex.call_expr(t, b.term_loc(pb)), env, facts, depth + 1)
            found = True
    if not found:
        raise Unknown(("no return value",))
    return val


def walk(body, ex, env, facts=None, start_bb=0, max_steps=2000, depth=0):
    """Follow the normal CFG evaluating switch discriminants with `ev`.  Returns (return_block, path)."""
    bb, path = start_bb, []
    for _ in range(max_steps):
        path.append(bb)
        t = body.term(bb)
        k = t["k"]
        if k == "return":
            return bb, path
        if k in ("goto", "call", "assert", "drop"):
            if t.get("target") is None:
                return None, path
            bb = t["target"]
            continue
        if k == "switch":
            v = ev(ex.switch_discr(bb), env, facts, depth + 1)
            if isinstance(v, bool):
                v = int(v)
            nxt = t["otherwise"]
            for val, tg in t["cases"]:
                if val == v:
                    nxt = tg
            bb = nxt
            continue
        raise ShapeNotRecognised("terminator %s in concrete walk" % k)
    raise ShapeNotRecognised("walk did not terminate")
