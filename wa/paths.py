"""Path enumeration for small (loop-free or loop-cut) bodies with consistent branch decisions."""
from .mir import ShapeNotRecognised
from .cond import switch_edges


def enum_paths(body, ex, start=0, stop=None, max_paths=4000, cut_back_edges=True):
    """Yield (blocks, decisions) for every path from `start` to a block without successors (or in
    `stop`).  decisions: {discr_expr: (vals or None, excluded)}; a discriminant expression decided
    once keeps that decision for the rest of the path (so `if c {..} .. if c {..}` is consistent).
    Back edges are not followed (each loop body is entered at most once per path)."""
    back = set(body.back_edges()) if cut_back_edges else set()
    out = []
    count = [0]

    def rec(bb, blocks, dec):
        if count[0] > max_paths:
            raise ShapeNotRecognised("too many paths in %s" % body.name)
        blocks = blocks + [bb]
        t = body.term(bb)
        if (stop is not None and bb in stop) or not body.succ.get(bb):
            count[0] += 1
            out.append((blocks, dec))
            return
        if t["k"] == "switch":
            d = ex.switch_discr(bb)
            all_vals = [v for v, _ in t["cases"]]
            for tg, vals, oth in switch_edges(body, bb):
                if (bb, tg) in back:
                    continue
                this = (tuple(vals), False) if not oth else (tuple(all_vals), True)
                if d in dec:
                    if dec[d] != this:
                        # consistent only if same decision
                        prev = dec[d]
                        if not compatible(prev, this):
                            continue
                    rec(tg, blocks, dec)
                else:
                    nd = dict(dec)
                    nd[d] = this
                    rec(tg, blocks, nd)
            return
        for s in body.succ.get(bb, []):
            if (bb, s) in back:
                continue
            rec(s, blocks, dec)

    rec(start, [], {})
    return out


def compatible(a, b):
    """Two decisions on the same discriminant: a = (vals, is_otherwise)."""
    va, oa = a
    vb, ob = b
    if not oa and not ob:
        return bool(set(va) & set(vb))
    if oa and ob:
        return True
    if oa and not ob:
        return not set(vb) <= set(va)
    return not set(va) <= set(vb)


def decision_truth(dec, d):
    """For a bool discriminant: True / False / None."""
    if d not in dec:
        return None
    vals, oth = dec[d]
    if not oth:
        if vals == (0,):
            return False
        if vals == (1,):
            return True
        return None
    if vals == (0,):
        return True
    if vals == (1,):
        return False
    return None
