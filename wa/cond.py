"""Branch knowledge: which switch edges dominate a block and what they say about enum values."""
from .expr import strip_refs


def switch_edges(body, bb):
    """[(target, values, is_otherwise)] for the switch terminating bb (unreachable targets dropped)."""
    t = body.term(bb)
    out = {}
    for v, tg in t["cases"]:
        out.setdefault(tg, [[], False])[0].append(v)
    out.setdefault(t["otherwise"], [[], False])[1] = True
    res = []
    for tg, (vals, oth) in out.items():
        if body.blocks[tg]["term"]["k"] == "unreachable":
            continue
        if (bb, tg) in getattr(body, "dead_edges", ()):
            continue   # infeasible under the hypothesis this body was restricted with
        res.append((tg, vals, oth))
    return res


def dominating_facts(body, ex, bb):
    """Facts established by switch edges that dominate block bb:
    list of (discr_expr, possible_values or None, excluded_values, switch_bb, target)."""
    out = []
    for s in body.normal:
        if s not in body.reachable or body.term(s)["k"] != "switch":
            continue
        all_vals = [v for v, _ in body.term(s)["cases"]]
        for tg, vals, oth in switch_edges(body, s):
            if tg == bb or body.edge_dominates((s, tg), bb):
                if tg != bb and not body.reaches(s, bb):
                    continue
                if tg == bb and len(body.pred.get(bb, [])) != 1:
                    if not body.edge_dominates((s, tg), bb):
                        continue
                d = ex.switch_discr(s)
                if oth:
                    out.append((d, None if True else vals, [v for v in all_vals if v not in vals], s, tg))
                else:
                    out.append((d, list(vals), [], s, tg))
    return out


def bool_facts(body, ex, bb):
    """{expr: True/False} for boolean conditions known on entry to bb."""
    out = {}
    for d, vals, excl, s, tg in dominating_facts(body, ex, bb):
        if body.term(s)["discr_ty"] != "bool":
            continue
        if vals is not None and vals == [0]:
            out[d] = False
        elif vals is None and excl == [0]:
            out[d] = True
        elif vals is not None and vals == [1]:
            out[d] = True
    return out


def enum_value_on_trace(body, ex, bb, scrut, variants_by_discr):
    """Possible variant names of enum expression `scrut` on entry to bb, from dominating
    `match scrut` / `scrut == Variant` edges.  Returns a set of names (all variants if unknown)."""
    allv = set(variants_by_discr.values())
    poss = set(allv)
    scrut = strip_refs(scrut)
    for d, vals, excl, s, tg in dominating_facts(body, ex, bb):
        if d[0] == "discr" and strip_refs(d[1]) == scrut:
            if vals is not None:
                poss &= {variants_by_discr[v] for v in vals if v in variants_by_discr}
            else:
                poss -= {variants_by_discr[v] for v in excl if v in variants_by_discr}
        elif d[0] == "bin" and d[1] in ("Eq", "Ne"):
            a, b = strip_refs(d[2]), strip_refs(d[3])
            other = None
            if a == scrut:
                other = b
            elif b == scrut:
                other = a
            if other is None or other[0] != "agg" or other[2] not in allv:
                continue
            truth = None
            if vals is not None and vals == [0]:
                truth = False
            elif vals is None and excl == [0]:
                truth = True
            if truth is None:
                continue
            if d[1] == "Ne":
                truth = not truth
            if truth:
                poss &= {other[2]}
            else:
                poss -= {other[2]}
    return poss


def _as_value(e):
    """Concrete value of a constant expression: int/bool or enum variant name."""
    e = strip_refs(e)
    if e[0] == "const":
        return e[1]
    if e[0] == "agg" and e[2] and not e[3]:
        return e[2]
    return None


_CANON = {}


def canon(e):
    """Expression with every reference/dereference node removed (`(*p).0` and `p.0` compare equal):
    used only to MATCH hypothesis keys against branch conditions, where pointer-ness is irrelevant."""
    if not isinstance(e, tuple):
        return e
    r = _CANON.get(e)
    if r is not None:
        return r
    x = e
    while isinstance(x, tuple) and x and x[0] in ("ref", "deref") and len(x) == 2:
        x = x[1]
    if isinstance(x, tuple) and x and x[0] in ("field", "downcast", "index", "bin", "un", "cast", "discr", "cidx"):
        x = tuple(canon(y) if isinstance(y, tuple) and y and isinstance(y[0], str) else y for y in x)
    if len(_CANON) < 200000:
        _CANON[e] = x
    return x


def _agg_eq_under(facts, a, c, hyp):
    """Truth of `a == c` where one side is a constant struct literal and the hypothesis speaks about the
    fields of the other: True when every field is known equal, False when one is known different."""
    def lit(e):
        if e[0] == "named":
            e = e[2]
        if e[0] == "agg" and e[1] not in ("tuple", "array", "closure") and e[3] and all(_as_value(canon(x)) is not None for x in e[3]):
            return e
        return None
    la, lc = lit(a), lit(c)
    if (la is None) == (lc is None):
        return None
    k, x = (la, c) if la is not None else (lc, a)
    try:
        names = facts.struct_fields(k[1])
    except Exception:
        names = None
    if not names or len(names) != len(k[3]):
        names = [str(i) for i in range(len(k[3]))]
    all_eq = True
    for nm, fv in zip(names, k[3]):
        want = _as_value(canon(fv))
        h = hyp.get(canon(("field", x, nm)))
        if h is None:
            all_eq = False
            continue
        rel, v = h
        if rel == "eq":
            if v != want:
                return False
        else:
            if v == want or (isinstance(v, (tuple, set, frozenset)) and want in v):
                return False
            all_eq = False
    return True if all_eq else None


def refuted_edges(body, ex, hyp, variants=None):
    """CFG edges that contradict a hypothesis.  hyp: {expr: ('eq', v) | ('ne', v)} with v an int or
    an enum variant name; variants: {expr: {discr: name}} for enum-typed hypothesis expressions.
    Only switches on `Eq/Ne(expr, constant)` and `discriminant(expr)` are interpreted; every other
    switch keeps all its edges (over-approximation of feasible paths)."""
    out = set()
    hyp = {canon(k): v for k, v in hyp.items()}
    variants = {canon(k): v for k, v in (variants or {}).items()}
    for s in body.normal:
        if s not in body.reachable or body.term(s)["k"] != "switch":
            continue
        d = ex.switch_discr(s)
        t = body.term(s)
        edges = switch_edges(body, s)
        if canon(d) in hyp and body.term(s)["discr_ty"] == "bool" and hyp[canon(d)][0] == "eq" and isinstance(hyp[canon(d)][1], bool):
            want = hyp[canon(d)][1]
            listed = [v2 for v2, _ in t["cases"]]
            for tg, vals, oth in edges:
                edge_truth = None
                if vals == [0] and not oth:
                    edge_truth = False
                elif vals == [1] and not oth:
                    edge_truth = True
                elif oth:
                    edge_truth = True if listed == [0] else (False if listed == [1] else None)
                if edge_truth is not None and edge_truth != want:
                    out.add((s, tg))
            continue
        if canon(d) in hyp and body.term(s)["discr_ty"] not in ("bool", "isize") and isinstance(hyp[canon(d)][1], (int, tuple, set, frozenset)) \
                and not isinstance(hyp[canon(d)][1], bool):
            # `match x { 9 => .., 2 => .., _ => .. }` on an integer the hypothesis speaks about
            rel, v = hyp[canon(d)]
            listed = [v2 for v2, _ in t["cases"]]
            for tg, vals, oth in edges:
                if rel == "eq" and isinstance(v, int):
                    feasible = (v in vals) or (oth and v not in listed)
                elif rel == "ne":
                    excl = set(v) if isinstance(v, (tuple, set, frozenset)) else {v}
                    feasible = oth or any(x not in excl for x in vals)
                else:
                    feasible = True
                if not feasible:
                    out.add((s, tg))
            continue
        if d[0] == "bin" and d[1] in ("Eq", "Ne"):
            a, c = canon(d[2]), canon(d[3])
            x, k = (a, _as_value(c)) if a in hyp else ((c, _as_value(a)) if c in hyp else (None, None))
            if x is None or k is None:
                # whole-value comparison with a constant aggregate (`square == A1_CORNER` for a tuple struct):
                # the conjunction of its field comparisons, decided when the hypothesis fixes the fields
                truth = _agg_eq_under(body.facts, a, c, hyp)
                if truth is None:
                    continue
                if d[1] == "Ne":
                    truth = not truth
                for tg, vals, oth in edges:
                    edge_truth = None
                    if vals == [0] and not oth:
                        edge_truth = False
                    elif vals == [1] and not oth:
                        edge_truth = True
                    elif oth:
                        listed = [v2 for v2, _ in t["cases"]]
                        edge_truth = True if listed == [0] else (False if listed == [1] else None)
                    if edge_truth is not None and edge_truth != truth:
                        out.add((s, tg))
                continue
            rel, v = hyp[x]
            if rel == "eq":
                truth = (v == k)
            elif v == k or (isinstance(v, (tuple, set, frozenset)) and k in v):
                truth = False      # x != k known
            else:
                continue            # x != v says nothing about x == k
            if d[1] == "Ne":
                truth = not truth
            for tg, vals, oth in edges:
                edge_truth = None
                if vals == [0] and not oth:
                    edge_truth = False
                elif vals == [1] and not oth:
                    edge_truth = True
                elif oth:
                    listed = [v2 for v2, _ in t["cases"]]
                    edge_truth = True if listed == [0] else (False if listed == [1] else None)
                if edge_truth is not None and edge_truth != truth:
                    out.add((s, tg))
        elif d[0] == "discr" and canon(d[1]) in hyp:
            x = canon(d[1])
            names = variants.get(x)
            if not names:
                continue
            rel, v = hyp[x]
            listed = [v2 for v2, _ in t["cases"]]
            for tg, vals, oth in edges:
                poss = {names[v2] for v2 in vals if v2 in names}
                if oth:
                    poss |= {n for dv, n in names.items() if dv not in listed}
                if rel == "eq" and v not in poss:
                    out.add((s, tg))
                elif rel == "ne" and poss and poss <= (set(v) if isinstance(v, (tuple, set, frozenset)) else {v}):
                    out.add((s, tg))
    # boolean temporaries built by `a || b || c` / `a && b`: a switch on a bool local whose
    # definitions are constants or hypothesis-known expressions keeps only the edges compatible with
    # the definitions that are still reachable under the hypothesis (two rounds reach a fixpoint here)
    for _ in range(2):
        reach = body.reach_from(0, (), out)
        for s in body.normal:
            if s not in reach or body.term(s)["k"] != "switch" or body.term(s)["discr_ty"] != "bool":
                continue
            d = canon(ex.switch_discr(s))
            if d[0] != "var":
                continue
            vals = set()
            ok = True
            for dloc, kind in d[2]:
                if kind != "whole":
                    ok = False
                    break
                if dloc[0] not in reach:
                    continue
                bb, i = dloc
                st = body.stmts(bb)
                if i >= len(st):
                    ok = False
                    break
                e = canon(ex.rvalue(st[i]["rv"], dloc))
                if e[0] == "const" and isinstance(e[1], bool):
                    vals.add(e[1])
                elif e in hyp and hyp[e][0] == "eq" and isinstance(hyp[e][1], bool):
                    vals.add(hyp[e][1])
                else:
                    vals |= {True, False}
            if not ok or len(vals) != 1:
                continue
            want = next(iter(vals))
            t = body.term(s)
            listed = [v2 for v2, _ in t["cases"]]
            for tg, vs, oth in switch_edges(body, s):
                edge_truth = None
                if vs == [0] and not oth:
                    edge_truth = False
                elif vs == [1] and not oth:
                    edge_truth = True
                elif oth:
                    edge_truth = True if listed == [0] else (False if listed == [1] else None)
                if edge_truth is not None and edge_truth != want:
                    out.add((s, tg))
    return out


def refuted_edges_concrete(body, ex, env):
    """Edges contradicted by a concrete assignment to some leaf expressions: every switch whose
    discriminant can be evaluated under `env` keeps only the edge that value selects."""
    from .interp import eval_expr, Unknown
    out = set()
    decided = 0
    for s in body.normal:
        if s not in body.reachable or body.term(s)["k"] != "switch":
            continue
        d = ex.switch_discr(s)
        try:
            v = eval_expr(d, env)
        except (Unknown, TypeError, ValueError, IndexError):
            continue
        if isinstance(v, bool):
            v = int(v)
        if not isinstance(v, int):
            continue
        decided += 1
        t = body.term(s)
        take = t["otherwise"]
        for val, tg in t["cases"]:
            if val == v:
                take = tg
        for tg in body.succ.get(s, []):
            if tg != take:
                out.add((s, tg))
    return out, decided


STD_ENUMS = {"std::option::Option": {0: "None", 1: "Some"}, "std::result::Result": {0: "Ok", 1: "Err"},
             "std::cmp::Ordering": {-1: "Less", 0: "Equal", 1: "Greater"}}


def _fold_known_switches(body, ex, variants_of=None):
    """Edges refuted by discriminants that are compile-time known on this (possibly restricted)
    body: `switch(const)`, `switch(discriminant(<aggregate literal>))`."""
    out = set()
    facts = body.facts
    for s in body.normal:
        if s not in body.reachable or body.term(s)["k"] != "switch":
            continue
        d = strip_refs(ex.switch_discr(s))
        v = None
        if d[0] == "const" and isinstance(d[1], (int, bool)):
            v = int(d[1])
        elif d[0] == "discr":
            a = strip_refs(d[1])
            if a[0] == "named":
                a = a[2]
            if a[0] == "agg" and a[2] and a[1] not in ("tuple", "array", "closure"):
                try:
                    names = facts.enum_variant_by_discr(a[1])
                except Exception:
                    names = STD_ENUMS.get(a[1])
                if names:
                    for dv, n in names.items():
                        if n == a[2]:
                            v = dv
        if v is None:
            continue
        t = body.term(s)
        take = t["otherwise"]
        for val, tg in t["cases"]:
            if val == v:
                take = tg
        for tg in body.succ.get(s, []):
            if tg != take:
                out.add((s, tg))
    return out


def _refute_defs(body, ex, hyp):
    """A hypothesis about a variable that is a merge of literal definitions (`let (side, key) = match s
    {"w" => (White, 0), "b" => (Black, k)}`) refutes the paths through the definitions that contradict
    it: the out-edges of such a definition's block are infeasible, provided no other definition of the
    variable can follow it (then that literal really is the value the hypothesis speaks about)."""
    out = set()
    for k, (rel, v) in hyp.items():
        k = strip_refs(k)
        comp = None
        var = k
        if k[0] == "field" and strip_refs(k[1])[0] == "var":
            var, comp = strip_refs(k[1]), k[2]
        if var[0] != "var" or len(var[2]) < 2:
            continue
        defs = [d for d, kind in var[2] if kind == "whole"]
        if len(defs) != len(var[2]):
            continue
        for (bb, i) in defs:
            st = body.stmts(bb)
            if i >= len(st) or bb not in body.reachable:
                continue
            e = strip_refs(ex.rvalue(st[i]["rv"], (bb, i)))
            if comp is not None:
                if not (e[0] == "agg" and e[1] in ("tuple",) or (e[0] == "agg" and e[3])):
                    continue
                try:
                    e = strip_refs(e[3][int(comp)])
                except (ValueError, IndexError):
                    continue
            val = _as_value(e)
            if val is None:
                continue
            contradicts = (rel == "eq" and val != v) or (rel == "ne" and (val == v or (isinstance(v, (tuple, set, frozenset)) and val in v)))
            if not contradicts:
                continue
            if any(o != (bb, i) and (body.reaches(bb, o[0]) or (o[0] == bb and o[1] > i)) for o in defs):
                continue
            for sc in body.succ.get(bb, []):
                out.add((bb, sc))
    return out


def specialise(body, hyp, variants=None, keep=None, rounds=6):
    """Partial evaluation of a body under a hypothesis: repeatedly (1) refute the switch edges that
    contradict the hypothesis or a discriminant that has become a known constant, (2) restrict the
    body to the remaining edges, which shrinks reaching definitions so that values selected by the
    refuted branches (`let sq = match colour {..}`, `Option` results of an inlined helper, named
    boolean conditions) collapse to the one definition that is still feasible.
    Returns (restricted body, its Exprs, all refuted edges).  Sound: only edges whose condition is
    decided by the hypothesis are removed."""
    from .expr import Exprs
    b = body
    ex = Exprs(b, keep=keep)
    dead = set()
    for _ in range(rounds):
        new = set(refuted_edges(b, ex, hyp, variants)) | _fold_known_switches(b, ex) | _refute_defs(b, ex, hyp)
        new -= dead
        if not new:
            break
        dead |= new
        b = body.restrict(dead)
        ex = Exprs(b, keep=keep)
    return b, ex, dead
