"""Branch knowledge: which switch edges dominate a block and what they say about enum values."""
from .expr import strip_refs


def switch_edges(body, bb):
    """[(target, values, is_otherwise)] for the switch terminating bb (unreachable targets dropped)."""
    t = body.term(bb)
    out = {}
    for v, tg in t["cases"]:
        out.setdefault(tg, [[], False])[0].append(v)
    out.setdefault(t["otherwise"], [[], False])[1] = True
    res = []
    for tg, (vals, oth) in out.items():
        if body.blocks[tg]["term"]["k"] == "unreachable":
            continue
        res.append((tg, vals, oth))
    return res


def dominating_facts(body, ex, bb):
    """Facts established by switch edges that dominate block bb:
    list of (discr_expr, possible_values or None, excluded_values, switch_bb, target)."""
    out = []
    for s in body.normal:
        if s not in body.reachable or body.term(s)["k"] != "switch":
            continue
        all_vals = [v for v, _ in body.term(s)["cases"]]
        for tg, vals, oth in switch_edges(body, s):
            if tg == bb or body.edge_dominates((s, tg), bb):
                if tg != bb and not body.reaches(s, bb):
                    continue
                if tg == bb and len(body.pred.get(bb, [])) != 1:
                    if not body.edge_dominates((s, tg), bb):
                        continue
                d = ex.switch_discr(s)
                if oth:
                    out.append((d, None if True else vals, [v for v in all_vals if v not in vals], s, tg))
                else:
                    out.append((d, list(vals), [], s, tg))
    return out


def bool_facts(body, ex, bb):
    """{expr: True/False} for boolean conditions known on entry to bb."""
    out = {}
    for d, vals, excl, s, tg in dominating_facts(body, ex, bb):
        if body.term(s)["discr_ty"] != "bool":
            continue
        if vals is not None and vals == [0]:
            out[d] = False
        elif vals is None and excl == [0]:
            out[d] = True
        elif vals is not None and vals == [1]:
            out[d] = True
    return out


def enum_value_on_trace(body, ex, bb, scrut, variants_by_discr):
    """Possible variant names of enum expression `scrut` on entry to bb, from dominating
    `match scrut` / `scrut == Variant` edges.  Returns a set of names (all variants if unknown)."""
    allv = set(variants_by_discr.values())
    poss = set(allv)
    scrut = strip_refs(scrut)
    for d, vals, excl, s, tg in dominating_facts(body, ex, bb):
        if d[0] == "discr" and strip_refs(d[1]) == scrut:
            if vals is not None:
                poss &= {variants_by_discr[v] for v in vals if v in variants_by_discr}
            else:
                poss -= {variants_by_discr[v] for v in excl if v in variants_by_discr}
        elif d[0] == "bin" and d[1] in ("Eq", "Ne"):
            a, b = strip_refs(d[2]), strip_refs(d[3])
            other = None
            if a == scrut:
                other = b
            elif b == scrut:
                other = a
            if other is None or other[0] != "agg" or other[2] not in allv:
                continue
            truth = None
            if vals is not None and vals == [0]:
                truth = False
            elif vals is None and excl == [0]:
                truth = True
            if truth is None:
                continue
            if d[1] == "Ne":
                truth = not truth
            if truth:
                poss &= {other[2]}
            else:
                poss -= {other[2]}
    return poss
