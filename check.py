#!/usr/bin/env python3
"""check.py <ID> [--tier quick|thorough] [--src DIR] [--explain FILE]

Decides the static clauses of property <ID> on the tree at --src (default /repo), rewrites
/verif/evidence/<ID>.json and prints `VIOLATION property=<ID> replay=<path>` + exit 1 when a
specific construct breaks a rule (see DESIGN.md §1)."""
import argparse, json, os, sys, time

VERIF = os.path.dirname(os.path.abspath(__file__))
sys.path.insert(0, VERIF)

from wa import extract as wx          # noqa: E402
from wa.mir import Facts              # noqa: E402
from wa.rules import Ctx, run_rule    # noqa: E402
from rules import registry            # noqa: E402

BOARDSTATE_FIELDS = ["board", "to_move", "pawn_double_move", "white_king_location", "black_king_location",
                     "white_king_side_castle", "white_queen_side_castle", "black_king_side_castle",
                     "black_queen_side_castle", "order_heuristic", "last_move", "pawn_promotion", "zobrist_key"]


def load_known():
    known, fixed = {}, []
    p = os.path.join(VERIF, "known_findings.txt")
    if os.path.exists(p):
        for line in open(p):
            line = line.strip()
            if not line or line.startswith("#"):
                continue
            if line.startswith("known:"):
                parts = line[len("known:"):].split(None, 2)
                kv = dict(x.split("=", 1) for x in parts[:2])
                known[(kv["property"], kv["key"])] = parts[2] if len(parts) > 2 else ""
            elif line.startswith("fixed:"):
                fixed.append(line)
    return known, fixed


def sanity(ctx, facts):
    """Fail closed if the fact base is not what the rules were written against."""
    ctx.rule = "R0"
    ctx.rule_text["R0"] = "fact base is complete: bodies, modules, BoardState fields"
    nb = len(list(facts.body_names()))
    ctx.floor("function bodies", nb, 120)
    mods = {n.split("::")[0] for n in facts.body_names() if "::" in n and not n.startswith("<")}
    ctx.floor("modules", len(mods), 10)
    try:
        fields = facts.struct_fields("board::BoardState")
    except Exception:
        fields = []
    missing = [f for f in BOARDSTATE_FIELDS if f not in fields]
    ctx.ob("BoardState-fields", not missing, "src/board.rs", "missing fields: %s" % missing,
           reason="anchor-missing", nontrivial=False)
    ctx.rule = None


def run_property(prop, facts, tier):
    ctx = Ctx(facts, prop)
    sanity(ctx, facts)
    rids = list(registry.QUICK.get(prop, []))
    if tier == "thorough":
        rids += registry.THOROUGH_EXTRA.get(prop, [])
    for rid in rids:
        text, fn = registry.RULES[rid]
        run_rule(ctx, rid, text, fn)
    return ctx, rids


def run_sensitivity(prop):
    import glob, subprocess
    from tools import mut
    res = {"applied": 0, "caught": 0, "insensitive": [], "skipped": []}
    env = dict(os.environ, VERIF_NO_SENSITIVITY="1")
    patches = sorted(glob.glob(os.path.join(VERIF, "mutants", prop, "*.patch")))
    for path in patches:
        r = mut.run_one(path)
        name = os.path.relpath(path, VERIF)
        if r["status"].startswith("skipped"):
            res["skipped"].append(name)
            continue
        res["applied"] += 1
        if r["status"] in ("caught", "caught-by-other-rule"):
            res["caught"] += 1
        else:
            res["insensitive"].append(name)
    for d in sorted(glob.glob(os.path.join(VERIF, "seeded", prop + "-*"))):
        pth = os.path.join(d, "patch.diff")
        if not os.path.exists(pth):
            continue
        fired = mut.run_seed(pth, [prop])
        name = os.path.relpath(pth, VERIF)
        if not fired:
            res["skipped"].append(name)
            continue
        res["applied"] += 1
        if fired.get(prop):
            res["caught"] += 1
        else:
            res["insensitive"].append(name)
    return res


def main():
    ap = argparse.ArgumentParser()
    ap.add_argument("prop")
    ap.add_argument("--tier", default=os.environ.get("VERIF_TIER", "quick"))
    ap.add_argument("--src", default="/repo")
    ap.add_argument("--explain")
    ap.add_argument("--no-evidence", action="store_true")
    ap.add_argument("--json", action="store_true", help="print obligations as JSON (selftest use)")
    a = ap.parse_args()
    if os.environ.get("VERIF_TIER") in ("quick", "thorough"):
        a.tier = os.environ["VERIF_TIER"]
    if a.explain:
        d = json.load(open(a.explain))
        for v in d.get("violations", []):
            print("%s  [%s]\n  rule: %s\n  at:   %s\n  %s\n" % (v["key"], v.get("reason"), d["rules"].get(v["rule"], ""), v["where"], v["detail"]))
        return 0
    prop = a.prop
    if prop not in registry.QUICK:
        print("no check registered for %s" % prop)
        return 2
    seed = int(os.environ.get("VERIF_SEED", "0") or 0)
    t0 = time.time()
    known = registry.known_functions()
    try:
        facts = Facts(wx.extract(a.src, "dev"), known=known)
    except wx.ExtractError as e:
        # the tree does not build (or the driver could not run): nothing can be decided, and that is
        # not a property violation -- exit status 2, no VIOLATION line
        print("CANNOT-ANALYSE property=%s: the source tree does not build under `cargo +nightly check --offline`\n%s" % (prop, str(e)[-1500:]))
        return 2
    ctx, rids = run_property(prop, facts, a.tier)
    configs = ["dev"]
    if a.tier == "thorough":
        f2 = Facts(wx.extract(a.src, "release", all_targets=False), known=known)
        ctx2, _ = run_property(prop, f2, a.tier)
        configs.append("release")
        have = {o.key for o in ctx.obs if not o.ok}
        for o in ctx2.obs:
            if not o.ok and o.key not in have:
                o.key = o.key + "@release"
                ctx.obs.append(o)
    sensitivity = None
    if a.tier == "thorough" and a.src == "/repo" and not os.environ.get("VERIF_NO_SENSITIVITY"):
        # checker self-test, recorded in evidence, never part of the verdict: every stored mutant and
        # seeded change of this property is applied to a scratch copy of the current tree and the
        # rules must fire on it
        sensitivity = run_sensitivity(prop)
    known, fixed = load_known()
    viol, known_hits = [], []
    for o in ctx.obs:
        if o.ok:
            continue
        if (prop, o.key) in known:
            known_hits.append(o)
        else:
            viol.append(o)
    wall = time.time() - t0
    ev_dir = os.path.join(VERIF, "evidence")
    os.makedirs(ev_dir, exist_ok=True)
    replay = os.path.join(ev_dir, "%s.violation.json" % prop)
    nontriv = {o.key for o in ctx.obs if o.nontrivial}
    samples = [o.as_dict() for o in ctx.obs if o.nontrivial][:12]
    ev = {
        "property_id": prop, "tier": a.tier, "seed": seed, "level": registry.LEVEL.get(prop, "other") if hasattr(registry, "LEVEL") else "other",
        "coverage": {
            "explanation": "static analysis of the type-checked MIR of %s (configs: %s): rules %s. "
                           "Each obligation is one rule instance at one construct (call site, clone site, "
                           "field write, branch); discharged means the rule's shape was established on every path. "
                           "Decides the listed structural clauses, not the runtime behaviour." % (
                               a.src, ",".join(configs), ", ".join("%s (%s)" % (r, registry.RULES[r][0]) for r in rids)),
            "obligations": len(ctx.obs), "discharged": sum(1 for o in ctx.obs if o.ok) + len(known_hits),
            "evaluations": len(ctx.obs), "distinct_nontrivial": len(nontriv),
            "rule": "one obligation per (rule, function, construct key); non-trivial = not a floor/sanity count",
            "samples": samples,
            "checker_cmd": "python3 /verif/check.py %s --tier %s" % (prop, a.tier),
            "trusted_base": ["rustc nightly MIR construction + Instance::try_resolve", "wfacts serialisation",
                             "wa/ Python model of MIR (CFG, reaching definitions, value numbering)",
                             "rules/ tables (idioms, chess oracle)"],
            "functions_analysed": sorted(ctx.analysed),
            "bodies_in_fact_base": len(list(facts.body_names())),
            "known_findings": [o.key for o in known_hits],
            "rules": {r: registry.RULES[r][0] for r in rids},
            "sensitivity": sensitivity,
        },
        "assumptions": ["MIR at -Zmir-opt-level=0 faithfully represents the source", "normal-completion CFG: panics are separate obligations (C15)"],
        "wall_s": round(wall, 2), "violations": len(viol),
    }
    if not a.no_evidence and a.src == "/repo":
        with open(os.path.join(ev_dir, "%s.json" % prop), "w") as f:
            json.dump(ev, f, indent=1)
    if a.json:
        print(json.dumps([o.as_dict() for o in ctx.obs if not o.ok]))
    for o in known_hits:
        print("KNOWN-FINDING: property=%s %s %s" % (prop, o.key, known[(prop, o.key)]))
    wall = time.time() - t0
    ev["wall_s"] = round(wall, 2)
    if not a.no_evidence and a.src == "/repo":
        with open(os.path.join(ev_dir, "%s.json" % prop), "w") as f:
            json.dump(ev, f, indent=1)
    print("%s tier=%s rules=%s obligations=%d discharged=%d violated=%d known=%d wall=%.1fs" % (
        prop, a.tier, ",".join(rids), len(ctx.obs), sum(1 for o in ctx.obs if o.ok), len(viol), len(known_hits), wall))
    if sensitivity is not None:
        print("  sensitivity (checker self-test, not part of the verdict): %d changes applied, %d caught, insensitive: %s, skipped: %d" % (
            sensitivity["applied"], sensitivity["caught"], sensitivity["insensitive"], len(sensitivity["skipped"])))
    if viol:
        if a.src == "/repo" and not a.no_evidence:
            with open(replay, "w") as f:
                json.dump({"property": prop, "rules": ctx.rule_text, "violations": [o.as_dict() for o in viol]}, f, indent=1)
        for o in viol:
            print("  VIOLATED %s [%s] at %s\n    %s" % (o.key, o.reason, o.where, o.detail.replace("\n", "\n    ")))
        print("VIOLATION property=%s replay=%s" % (prop, replay))
        return 1
    if os.path.exists(replay) and a.src == "/repo" and not a.no_evidence:
        os.remove(replay)
    return 0


if __name__ == "__main__":
    sys.exit(main())
