#!/usr/bin/env python3
"""mkknown.py [SRC=/repo]: regenerate rules/known_functions.txt (the reference vocabulary: every
function/closure of the reference tree with its signature).  Run only after the rules have been
re-confirmed on a new reference tree."""
import os, sys
VERIF = os.path.dirname(os.path.dirname(os.path.abspath(__file__)))
sys.path.insert(0, VERIF)
from wa import extract as wx
src = sys.argv[1] if len(sys.argv) > 1 else "/repo"
f = wx.extract(src, "dev")
out = ["# reference vocabulary: every function/closure body of the tree the rules were confirmed on, with its signature",
       "# name<TAB>(param types) -> return type        (regenerate with tools/mkknown.py)"]
for n, b in sorted(f["bodies"].items()):
    if b["kind"] == "Promoted":
        continue
    sig = "(%s) -> %s" % (", ".join(b["locals"][i]["ty"] for i in range(1, b["arg_count"] + 1)), b["locals"][0]["ty"])
    out.append("%s\t%s" % (n, sig))
open(os.path.join(VERIF, "rules", "known_functions.txt"), "w").write("\n".join(out) + "\n")
print("wrote", len(out) - 2, "functions")
