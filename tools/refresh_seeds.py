#!/usr/bin/env python3
"""refresh_seeds.py [-j N] [GLOB]: re-run every check on every seeded change and rewrite meta.json's
detected_by (so DESIGN §9.3 reflects the rules as they are now)."""
import json, os, sys, glob
from concurrent.futures import ProcessPoolExecutor
VERIF = os.path.dirname(os.path.dirname(os.path.abspath(__file__)))
sys.path.insert(0, VERIF)
from tools import mut
from rules import registry


def one(d):
    mp = os.path.join(d, "meta.json")
    m = json.load(open(mp))
    fired = mut.run_seed(os.path.join(d, "patch.diff"), sorted(registry.QUICK))
    m["detected_by"] = {q: k for q, k in fired.items() if k}
    m["caught_by_own_property_check"] = bool(fired.get(m["breaks_property"])) and "PATCH-DOES-NOT-APPLY" not in fired.get(m["breaks_property"], [])
    json.dump(m, open(mp, "w"), indent=1)
    return os.path.basename(d), m["caught_by_own_property_check"], sorted(m["detected_by"])


if __name__ == "__main__":
    a = sys.argv[1:]
    j = 8
    if a[:1] == ["-j"]:
        j = int(a[1])
        a = a[2:]
    pat = a[0] if a else os.path.join(VERIF, "seeded", "*")
    dirs = sorted(glob.glob(pat))
    bad = 0
    with ProcessPoolExecutor(j) as ex:
        for name, own, det in ex.map(one, dirs):
            print(name, "own:", own, det, flush=True)
            bad += not own
    print("not caught by own check:", bad)
