#!/usr/bin/env python3
"""Re-run every check on every seeded change and rewrite meta.json's detected_by (so DESIGN §9.3
reflects the rules as they are now)."""
import json, os, sys, glob
VERIF = os.path.dirname(os.path.dirname(os.path.abspath(__file__)))
sys.path.insert(0, VERIF)
from tools import mut
from rules import registry
bad = 0
for d in sorted(glob.glob(os.path.join(VERIF, "seeded", "*"))):
    mp = os.path.join(d, "meta.json")
    m = json.load(open(mp))
    fired = mut.run_seed(os.path.join(d, "patch.diff"), sorted(registry.QUICK))
    m["detected_by"] = {q: k for q, k in fired.items() if k}
    m["caught_by_own_property_check"] = bool(fired.get(m["breaks_property"]))
    json.dump(m, open(mp, "w"), indent=1)
    print(os.path.basename(d), "own:", m["caught_by_own_property_check"], sorted(m["detected_by"]))
    bad += not m["caught_by_own_property_check"]
print("not caught by own check:", bad)
