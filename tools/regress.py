#!/usr/bin/env python3
"""regress.py [--props C01,C02] [--seeds] [--mutants] [--refactors GLOB] [--head] [--equiv] [-j N]
Regression harness for checker changes (does not rewrite any meta.json):
  --head       every listed property's quick check is silent on /repo
  --seeds      every seeded change of the listed properties is still reported by its own property's check
  --mutants    every hand-written mutant of the listed properties is still reported by that property's check
  --refactors  behaviour-preserving patches matching GLOB stay silent on the listed properties
  --equiv      the small equivalent-refactor corpus stays silent (all properties)
All work happens on scratch copies; /repo is only read."""
import argparse, glob, json, os, subprocess, sys
from concurrent.futures import ThreadPoolExecutor
VERIF = os.path.dirname(os.path.dirname(os.path.abspath(__file__)))
sys.path.insert(0, VERIF)
from tools import mut
from rules import registry

ap = argparse.ArgumentParser()
ap.add_argument("--props", default="")
ap.add_argument("--seeds", action="store_true")
ap.add_argument("--mutants", action="store_true")
ap.add_argument("--refactors", default="")
ap.add_argument("--head", action="store_true")
ap.add_argument("--equiv", action="store_true")
ap.add_argument("-j", type=int, default=6)
a = ap.parse_args()
props = [p for p in a.props.split(",") if p] or sorted(registry.QUICK)
fails = []


def head(p):
    c = subprocess.run([sys.executable, os.path.join(VERIF, "check.py"), p, "--no-evidence"], stdout=subprocess.PIPE, stderr=subprocess.STDOUT, text=True)
    return p, c.returncode, c.stdout.strip().splitlines()[-1][:160] if c.stdout.strip() else ""


if a.head:
    with ThreadPoolExecutor(a.j) as ex:
        for p, rc, last in ex.map(head, props):
            print("head %s rc=%d %s" % (p, rc, last if rc else ""))
            if rc:
                fails.append("head:" + p)

jobs = []
if a.seeds:
    for d in sorted(glob.glob(os.path.join(VERIF, "seeded", "*"))):
        pid = os.path.basename(d).split("-")[0]
        if pid in props:
            jobs.append(("seed", os.path.basename(d), os.path.join(d, "patch.diff"), [pid], True))
if a.mutants:
    for pid in props:
        for f in sorted(glob.glob(os.path.join(VERIF, "mutants", pid, "*.patch"))):
            jobs.append(("mutant", pid + "/" + os.path.basename(f)[:-6], f, [pid], True))
if a.refactors:
    for f in sorted(glob.glob(a.refactors)):
        jobs.append(("refactor", os.path.basename(os.path.dirname(f)), f, props, False))


def run(job):
    kind, name, patch, ps, want_fire = job
    fired = mut.run_seed(patch, ps)
    hits = {q: k for q, k in fired.items() if k}
    return job, hits


if jobs:
    with ThreadPoolExecutor(a.j) as ex:
        for (kind, name, patch, ps, want_fire), hits in ex.map(run, jobs):
            ok = bool(hits) if want_fire else not hits
            print("%-8s %-34s %s %s" % (kind, name, "ok  " if ok else "FAIL", "" if ok and want_fire else json.dumps(hits)[:500]))
            if not ok:
                fails.append("%s:%s" % (kind, name))
if a.equiv:
    c = subprocess.run([sys.executable, os.path.join(VERIF, "tools", "mut.py"), "equiv"], stdout=subprocess.PIPE, stderr=subprocess.STDOUT, text=True)
    last = c.stdout.strip().splitlines()[-1]
    print("equiv:", last)
    if not last.endswith(" 0"):
        fails.append("equiv")
        print(c.stdout[-1500:])
print("REGRESSIONS: %d %s" % (len(fails), fails))
sys.exit(1 if fails else 0)
