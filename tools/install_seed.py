#!/usr/bin/env python3
"""install_seed.py <PID> <variant> : copy a confirmed sub-agent seed into /verif/seeded/<PID>-<variant>/
with meta.json (property, what it needs to manifest, what was run, which checks fire on it)."""
import json, os, shutil, subprocess, sys, re
VERIF = os.path.dirname(os.path.dirname(os.path.abspath(__file__)))
sys.path.insert(0, VERIF)
from tools import mut
from rules import registry

pid, var = sys.argv[1], sys.argv[2]
base = sys.argv[3] if len(sys.argv) > 3 else "/tmp/seed"          # round 2: /tmp/seed2
outvar = sys.argv[4] if len(sys.argv) > 4 else var                 # round 2: a->c, b->d
rdir = sys.argv[5] if len(sys.argv) > 5 else "/tmp/seedres"
src = "%s/%s/SEED/%s" % (base, pid, var)
res = json.load(open("%s/%s-%s.json" % (rdir, pid, var)))
if not res.get("confirmed"):
    print("NOT CONFIRMED", pid, var, res["steps"])
    sys.exit(1)
dst = os.path.join(VERIF, "seeded", "%s-%s" % (pid, outvar))
os.makedirs(dst, exist_ok=True)
for fn in os.listdir(src):
    shutil.copy(os.path.join(src, fn), os.path.join(dst, fn))
notes = open(os.path.join(src, "notes.md")).read() if os.path.exists(os.path.join(src, "notes.md")) else ""
fired = mut.run_seed(os.path.join(dst, "patch.diff"), sorted(registry.QUICK))
meta = {
    "breaks_property": pid,
    "source": "independent sub-agent given only the property text and a scratch worktree (round %s)" % ((re.search(r"seed(\d)", base).group(1)) if re.search(r"seed(\d)", base) else "1"),
    "summary": notes.strip().split("\n\n")[0][:600],
    "needs_to_manifest": next((p for p in notes.split("\n\n") if re.search(r"manifest|needs|only shows|trigger", p, re.I)), "")[:900],
    "confirmed_by": {"tool": "tools/verify_seed.py in a scratch worktree of /repo HEAD", "steps": res["steps"]},
    "detected_by": {q: keys for q, keys in fired.items() if keys},
    "caught_by_own_property_check": bool(fired.get(pid)),
}
json.dump(meta, open(os.path.join(dst, "meta.json"), "w"), indent=1)
print(pid, var, "own:", bool(fired.get(pid)), {q: len(k) for q, k in fired.items() if k})
