#!/usr/bin/env python3
"""Mutant corpus tooling (checker self-test; never part of a property verdict).

  mut.py make                 regenerate /verif/mutants/<ID>/<name>.patch from tools/mutant_specs.py
  mut.py run [ID ...] [--tests] [--only name]
                              apply each stored patch to a scratch copy of /repo's current tree, run the
                              property's check on it and report which rule instances fired;
                              --tests additionally builds and runs the repository's test suite on the mutant
"""
import json, os, shutil, subprocess, sys, tempfile, glob

VERIF = os.path.dirname(os.path.dirname(os.path.abspath(__file__)))
sys.path.insert(0, VERIF)
MUT = os.path.join(VERIF, "mutants")


def scratch_copy(src="/repo"):
    d = tempfile.mkdtemp(prefix="wv-mut-")
    for name in ("src", "Cargo.toml", "Cargo.lock", ".cargo"):
        s = os.path.join(src, name)
        if os.path.isdir(s):
            shutil.copytree(s, os.path.join(d, name))
        elif os.path.exists(s):
            shutil.copy(s, os.path.join(d, name))
    return d


def make():
    from tools import mutant_specs
    n = 0
    for pid, name, file, old, new, expect, note in mutant_specs.SPECS:
        d = scratch_copy()
        try:
            p = os.path.join(d, file)
            txt = open(p).read()
            if txt.count(old) != 1:
                print("SPEC DOES NOT APPLY (%d matches): %s/%s" % (txt.count(old), pid, name))
                continue
            open(p, "w").write(txt.replace(old, new))
            diff = subprocess.run(["diff", "-u", "--label", "a/" + file, "--label", "b/" + file,
                                   os.path.join("/repo", file), p], stdout=subprocess.PIPE, text=True).stdout
            os.makedirs(os.path.join(MUT, pid), exist_ok=True)
            with open(os.path.join(MUT, pid, name + ".patch"), "w") as f:
                f.write("# property: %s\n# expect: %s\n# note: %s\n" % (pid, expect, note))
                f.write(diff)
            n += 1
        finally:
            shutil.rmtree(d, ignore_errors=True)
    print("wrote %d patches" % n)


def parse_patch(path):
    meta = {}
    for line in open(path):
        if line.startswith("# ") and ":" in line:
            k, v = line[2:].split(":", 1)
            meta[k.strip()] = v.strip()
        elif not line.startswith("#"):
            break
    return meta


def run_one(path, tests=False, props=None):
    meta = parse_patch(path)
    pid = meta.get("property")
    d = scratch_copy()
    res = {"patch": os.path.relpath(path, VERIF), "property": pid, "expect": meta.get("expect")}
    try:
        p = subprocess.run(["patch", "-p1", "-s", "-i", path], cwd=d, stdout=subprocess.PIPE, stderr=subprocess.STDOUT, text=True)
        if p.returncode != 0:
            res["status"] = "skipped (does not apply)"
            return res
        fired = {}
        for q in (props or [pid]):
            c = subprocess.run([sys.executable, os.path.join(VERIF, "check.py"), q, "--src", d, "--json", "--no-evidence"],
                               stdout=subprocess.PIPE, stderr=subprocess.STDOUT, text=True)
            keys = []
            for line in c.stdout.splitlines():
                if line.startswith("[{") or line == "[]":
                    try:
                        keys = [o["key"] + ("" if o.get("reason") == "rule-breach" else " [%s]" % o.get("reason")) for o in json.loads(line)]
                    except ValueError:
                        pass
            if c.returncode not in (0, 1):
                keys.append("CHECKER-ERROR rc=%d: %s" % (c.returncode, c.stdout[-300:]))
            fired[q] = keys
        res["fired"] = fired
        exp = meta.get("expect", "")
        mine = fired.get(pid, [])
        res["status"] = "caught" if any(exp.split(":")[0] in k for k in mine) else ("caught-by-other-rule" if mine else "MISSED")
        if tests:
            t = subprocess.run(["cargo", "test", "--offline", "--quiet"], cwd=d, env=dict(os.environ, CARGO_TARGET_DIR="/tmp/wv-mut-target"),
                               stdout=subprocess.PIPE, stderr=subprocess.STDOUT, text=True)
            tail = [l for l in t.stdout.splitlines() if l.startswith("test result")]
            res["tests"] = "pass" if t.returncode == 0 else "FAIL: " + (tail[-1] if tail else t.stdout[-200:])
    finally:
        shutil.rmtree(d, ignore_errors=True)
    return res


def run_seed(patch, props):
    """Apply an arbitrary patch (git diff format) to a scratch copy and run the given checks."""
    d = scratch_copy()
    try:
        p = subprocess.run(["git", "apply", "--unsafe-paths", "--directory=" + d, os.path.abspath(patch)], cwd="/", stdout=subprocess.PIPE, stderr=subprocess.STDOUT, text=True)
        if p.returncode != 0:
            p = subprocess.run(["patch", "-p1", "-s", "-i", os.path.abspath(patch)], cwd=d, stdout=subprocess.PIPE, stderr=subprocess.STDOUT, text=True)
            if p.returncode != 0:
                print("patch does not apply:", p.stdout[-300:])
                return {q: ["PATCH-DOES-NOT-APPLY"] for q in props}
        out = {}
        for q in props:
            c = subprocess.run([sys.executable, os.path.join(VERIF, "check.py"), q, "--src", d, "--json", "--no-evidence"],
                               stdout=subprocess.PIPE, stderr=subprocess.STDOUT, text=True, env=dict(os.environ, WV_FACTS_REUSE="1"))
            keys = []
            got_json = False
            for line in c.stdout.splitlines():
                if line.startswith("[{") or line == "[]":
                    got_json = True
                    keys = [o["key"] + ("" if o.get("reason") == "rule-breach" else " [%s]" % o.get("reason")) for o in json.loads(line)]
            if c.returncode not in (0, 1) or not got_json:
                keys.append("CHECKER-ERROR rc=%d %s" % (c.returncode, c.stdout[-400:]))
            out[q] = keys
        return out
    finally:
        shutil.rmtree(d, ignore_errors=True)


def equiv():
    """Apply each behaviour-preserving refactor and require every check to stay silent."""
    from tools import mutant_specs
    from rules import registry
    bad = 0
    for name, file, old, new, note in mutant_specs.EQUIV:
        d = scratch_copy()
        try:
            p = os.path.join(d, file)
            txt = open(p).read()
            old_, new_ = old.encode().decode("unicode_escape"), new.encode().decode("unicode_escape")
            if txt.count(old_) != 1:
                print("%-34s DOES NOT APPLY (%d matches)" % (name, txt.count(old_)))
                continue
            open(p, "w").write(txt.replace(old_, new_))
            fired = {}
            for q in sorted(registry.QUICK):
                c = subprocess.run([sys.executable, os.path.join(VERIF, "check.py"), q, "--src", d, "--json", "--no-evidence"],
                                   stdout=subprocess.PIPE, stderr=subprocess.STDOUT, text=True)
                for line in c.stdout.splitlines():
                    if line.startswith("[{"):
                        fired[q] = [o["key"] for o in json.loads(line)]
                if c.returncode not in (0, 1):
                    fired[q] = ["CHECKER-ERROR " + c.stdout[-200:]]
            print("%-34s %s" % (name, "silent" if not fired else "FALSE ALARM %s" % {k: v[:2] for k, v in fired.items()}))
            bad += bool(fired)
        finally:
            shutil.rmtree(d, ignore_errors=True)
    print("false alarms:", bad)


def main():
    if len(sys.argv) > 1 and sys.argv[1] == "make":
        return make()
    if len(sys.argv) > 1 and sys.argv[1] == "equiv":
        return equiv()
    if len(sys.argv) > 1 and sys.argv[1] == "seed":
        from rules import registry
        props = sys.argv[3:] or sorted(registry.QUICK)
        r = run_seed(sys.argv[2], props)
        for q, keys in r.items():
            if keys:
                print(q, "FIRES", keys[:6])
        print("silent:", [q for q, k in r.items() if not k])
        return
    args = [a for a in sys.argv[2:] if not a.startswith("--")]
    tests = "--tests" in sys.argv
    only = None
    if "--only" in sys.argv:
        only = sys.argv[sys.argv.index("--only") + 1]
        args = [a for a in args if a != only]
    pids = args or sorted(os.listdir(MUT))
    bad = 0
    for pid in pids:
        for path in sorted(glob.glob(os.path.join(MUT, pid, "*.patch"))):
            if only and only not in path:
                continue
            r = run_one(path, tests)
            print("%-8s %-52s %-22s %s %s" % (pid, os.path.basename(path)[:-6], r["status"], r.get("tests", ""),
                                           (r.get("fired", {}).get(pid) or [])[:3]))
            if r["status"] == "MISSED":
                bad += 1
    print("missed:", bad)


if __name__ == "__main__":
    main()
