#!/usr/bin/env python3
"""Regenerates /verif/MANIFEST.json from rules/registry.py (so it is always consistent)."""
import json, os, sys
VERIF = os.path.dirname(os.path.dirname(os.path.abspath(__file__)))
sys.path.insert(0, VERIF)
from rules import registry

props = [json.loads(l) for l in open(os.path.join(VERIF, "properties.jsonl"))]
checks, na = [], []
for p in props:
    pid = p["id"]
    if pid in registry.QUICK and pid in registry.CLAIMS:
        c = registry.CLAIMS[pid]
        rules = registry.QUICK[pid] + registry.THOROUGH_EXTRA.get(pid, [])
        checks.append({
            "property_id": pid,
            "quick_cmd": "python3 /verif/check.py %s --tier quick" % pid,
            "thorough_cmd": "python3 /verif/check.py %s --tier thorough" % pid,
            "evidence_file": "/verif/evidence/%s.json" % pid,
            "replay_cmd_template": "python3 /verif/check.py %s --explain {path}" % pid,
            "engine": "wfacts+wa",
            "level_claimed": {"category": registry.LEVEL.get(pid, "other"),
                              "text": c["text"] + " Decides the listed structural clauses for all inputs/paths; does NOT decide the runtime-quantified remainder (" + c["not"] + ").",
                              "design_ref": "DESIGN.md §4 " + pid},
            "level_note": c.get("note", "Trusted: rustc nightly MIR + Instance::try_resolve; wfacts serialisation; wa/ model of MIR; idiom and chess-oracle tables in rules/. Rules: " + ", ".join(rules)),
            "technique": c["technique"],
        })
    else:
        na.append({"property_id": pid, "reason": registry.NOT_APPLICABLE.get(pid, "check under construction (DESIGN.md §4)")})
m = {
    "version": 1,
    "setup_cmd": "cd /verif/driver && CARGO_NET_OFFLINE=true cargo +nightly build --release --offline && python3 /verif/wa/extract.py /repo",
    "hooks": {"guard": "walleye_verif", "enable": "not needed: static analysis reads /repo's type-checked MIR through the wfacts rustc driver (RUSTC_WORKSPACE_WRAPPER under cargo +nightly check); /repo carries no instrumentation",
              "baseline_off_cmd": "cd /repo && cargo test --workspace --no-fail-fast --offline", "source_commits": [], "add_only": True},
    "engines": [{"name": "wfacts+wa", "path": "/verif/driver, /verif/wa, /verif/rules", "serves_properties": [c["property_id"] for c in checks],
                 "kind_free_text": "rustc_private MIR fact extractor + Python static analyses (CFG/dominance, reaching definitions, value numbering, typestate, intervals, finite instantiation)"}],
    "checks": checks,
    "notes": "Static analysis only. Every check re-extracts MIR from /repo's working tree on each run. See DESIGN.md; known_findings.txt lists the repaired defects (fix: commits in /repo).",
    "not_applicable": na,
}
json.dump(m, open(os.path.join(VERIF, "MANIFEST.json"), "w"), indent=1)
print("checks:", [c["property_id"] for c in checks], "n/a:", [x["property_id"] for x in na])
