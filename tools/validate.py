#!/usr/bin/env python3-vt
import json, jsonschema, glob, sys
jsonschema.validate(json.load(open('/verif/MANIFEST.json')), json.load(open('/root/.vp/MANIFEST.schema.json'))); print('manifest valid')
sch = json.load(open('/root/.vp/EVIDENCE.schema.json'))
for f in sorted(glob.glob('/verif/evidence/C*.json')):
    if 'violation' in f: continue
    jsonschema.validate(json.load(open(f)), sch); print(f, 'valid')
