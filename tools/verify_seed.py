#!/usr/bin/env python3
"""verify_seed.py <seed dir with patch.diff + demo.diff|demo.sh|demo.py> <out json>
Confirms in a scratch worktree of /repo (outside /repo and /verif, removed afterwards):
  1. patch applies; crate builds; the repository's unedited suite passes with the patch
  2. demonstration FAILS with the patch
  3. demonstration PASSES without the patch
Writes what was run and observed to <out json>."""
import json, os, shutil, subprocess, sys, tempfile, re

seed, out = sys.argv[1], sys.argv[2]
TGT = os.environ.get("WV_SEED_TARGET", "/tmp/wv-seed-target")
res = {"seed": seed, "steps": []}


def sh(cmd, cwd, timeout=1800):
    p = subprocess.run(cmd, cwd=cwd, shell=True, stdout=subprocess.PIPE, stderr=subprocess.STDOUT, text=True, timeout=timeout,
                       env=dict(os.environ, CARGO_TARGET_DIR=TGT, CARGO_NET_OFFLINE="true"))
    return p.returncode, p.stdout


def test_summary(o):
    m = re.findall(r"test result: (\w+)\. (\d+) passed; (\d+) failed", o)
    return m[-1] if m else None


wt = tempfile.mkdtemp(prefix="wv-seedwt-")
os.rmdir(wt)
subprocess.check_call(["git", "-C", "/repo", "worktree", "add", "-q", "--detach", wt, "HEAD"])
try:
    patch = os.path.join(seed, "patch.diff")
    demo_diff = os.path.join(seed, "demo.diff")
    demo_sh = os.path.join(seed, "demo.sh")
    demo_py = os.path.join(seed, "demo.py")

    def run_demo():
        if os.path.exists(demo_diff):
            rc, o = sh("git apply %s" % demo_diff, wt)
            if rc != 0:
                return None, "demo.diff does not apply: " + o[-300:]
            rc, o = sh("cargo test --offline 2>&1 | tail -40", wt)
            summ = test_summary(o)
            sh("git apply -R %s" % demo_diff, wt)
            failed = [l for l in o.splitlines() if "FAILED" in l or "panicked" in l][:6]
            return summ, "\n".join(failed)
        for d, interp in ((demo_sh, "bash"), (demo_py, "python3")):
            if os.path.exists(d):
                # the scripts locate the tree as <worktree>/SEED/<variant>/demo.* and build <worktree>/target
                inner = os.path.join(wt, "SEED", os.path.basename(seed.rstrip("/")))
                os.makedirs(inner, exist_ok=True)
                for fn_ in os.listdir(seed):
                    if os.path.isfile(os.path.join(seed, fn_)):
                        shutil.copy(os.path.join(seed, fn_), inner)
                envb = {k: v for k, v in dict(os.environ, CARGO_NET_OFFLINE="true").items() if k != "CARGO_TARGET_DIR"}
                subprocess.run("cargo build --offline --quiet", cwd=wt, shell=True, env=envb, stdout=subprocess.PIPE, stderr=subprocess.STDOUT)
                extra = (" " + wt) if "--demo-arg-wt" in sys.argv else ""
                p = subprocess.run("%s %s%s" % (interp, os.path.join(inner, os.path.basename(d)), extra), cwd=wt, shell=True, stdout=subprocess.PIPE,
                                   stderr=subprocess.STDOUT, text=True, timeout=2400,
                                   env={k: v for k, v in dict(os.environ, CARGO_NET_OFFLINE="true").items() if k != "CARGO_TARGET_DIR"})
                return ("ok" if p.returncode == 0 else "FAILED", "rc=%d" % p.returncode, ""), p.stdout[-600:]
        return None, "no demonstration found"

    # 3. unchanged tree + demo passes
    s3, d3 = run_demo()
    res["steps"].append({"what": "demonstration on the unchanged tree", "summary": s3, "detail": d3})
    rc, o = sh("git apply %s" % patch, wt)
    res["steps"].append({"what": "git apply patch.diff", "rc": rc, "detail": o[-300:]})
    if rc == 0:
        rc, o = sh("cargo test --offline 2>&1 | tail -15", wt)
        s1 = test_summary(o)
        res["steps"].append({"what": "existing suite with the patch (cargo test --offline)", "summary": s1, "detail": "" if s1 and s1[0] == "ok" else o[-600:]})
        s2, d2 = run_demo()
        res["steps"].append({"what": "demonstration with the patch", "summary": s2, "detail": d2})
        ok_suite = bool(s1) and s1[0] == "ok" and s1[1] == "107"
        ok_fail = bool(s2) and (s2[0] == "FAILED")
        ok_pass = bool(s3) and s3[0] == "ok"
        res["confirmed"] = bool(ok_suite and ok_fail and ok_pass)
        res["suite_with_patch"] = s1
    else:
        res["confirmed"] = False
finally:
    subprocess.call(["git", "-C", "/repo", "worktree", "remove", "--force", wt])
    shutil.rmtree(wt, ignore_errors=True)
json.dump(res, open(out, "w"), indent=1)
print(json.dumps({"seed": seed, "confirmed": res.get("confirmed"), "steps": [(s["what"], s.get("summary")) for s in res["steps"]]}))
