#!/bin/bash
# mkxmutant.sh <name> <pid> <expect> <refactor-id> <file> <perl-expr> <note>
# A "refactor + slip" mutant: the behaviour-preserving refactor <refactor-id> with one bug on top.
# Runs the repository's tests on the result (they must stay green) and writes
# /verif/mutants/<pid>/x-<name>.patch (a patch against /repo).
set -e
name=$1; pid=$2; expect=$3; ref=$4; file=$5; expr=$6; note=$7
W=/tmp/mkx
mkdir -p $W
d=$W/$name
rm -rf "$d"; mkdir -p "$d"; cp -r /repo/src /repo/Cargo.toml /repo/Cargo.lock "$d"/; [ -d /repo/.cargo ] && cp -r /repo/.cargo "$d"/
(cd / && git apply --unsafe-paths --directory="$d" /verif/refactors/$ref/patch.diff)
cp "$d/$file" "$d/$file.orig"
perl -0pi -e "$expr" "$d/$file"
if cmp -s "$d/$file" "$d/$file.orig"; then echo "NOCHANGE $name"; exit 1; fi
rm "$d/$file.orig"
(cd "$d" && CARGO_NET_OFFLINE=true CARGO_TARGET_DIR=$W/target cargo test --offline 2>&1 | grep "test result\|error" | head -3)
out=/verif/mutants/$pid/x-$name.patch
mkdir -p /verif/mutants/$pid
{ echo "# property: $pid"; echo "# expect: $expect"; echo "# note: $note (on top of refactor $ref)"; } > "$out"
for f in $(cd "$d" && find src -name '*.rs' | sort); do
  if ! cmp -s "$d/$f" "/repo/$f"; then diff -u --label "a/$f" --label "b/$f" "/repo/$f" "$d/$f" >> "$out" || true; fi
done
echo "wrote $out"
rm -rf "$d"
