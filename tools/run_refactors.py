#!/usr/bin/env python3
"""run_refactors.py <dir-with-*/REFACTOR/*/patch.diff | refactors dir> : apply each behaviour-preserving
patch to /repo in turn, run every property's quick check, undo; any report is a false alarm."""
import glob, json, os, sys
VERIF = os.path.dirname(os.path.dirname(os.path.abspath(__file__)))
sys.path.insert(0, VERIF)
from tools import mut
from rules import registry
pats = sys.argv[1:]
files = []
for p in pats:
    files += sorted(glob.glob(p))
bad = 0
for f in files:
    fired = mut.run_seed(f, sorted(registry.QUICK))
    hits = {q: k for q, k in fired.items() if k}
    name = "/".join(f.split("/")[-4:-1]) if "REFACTOR" in f else os.path.basename(os.path.dirname(f))
    if hits:
        bad += 1
        print("FALSE-ALARM %-28s %s" % (name, json.dumps(hits)[:700]))
    else:
        print("silent      %s" % name)
print("false alarms: %d of %d" % (bad, len(files)))
