#!/usr/bin/env python3
"""refstatus.py <regress log>: write refactors/STATUS.json {refactor: [rule ids that alarmed]} from a
`tools/regress.py --refactors` run."""
import json, os, re, sys
VERIF = os.path.dirname(os.path.dirname(os.path.abspath(__file__)))
st = {}
for l in open(sys.argv[1]):
    m = re.match(r"refactor (\S+)\s+(ok|FAIL)\s*(.*)", l)
    if not m:
        continue
    ids = sorted(set(re.findall(r'"(R[0-9]+\.[0-9a-z]+):', m.group(3)))) if m.group(2) == "FAIL" else []
    if m.group(2) == "FAIL" and not ids:
        ids = ["?"]
    st[m.group(1)] = ids
json.dump(st, open(os.path.join(VERIF, "refactors", "STATUS.json"), "w"), indent=0, sort_keys=True)
print(len(st), "refactors;", sum(1 for v in st.values() if v), "alarm")
