#!/usr/bin/env python3
"""Checker self-tests (never part of a property verdict):
  facts   cross-check the wfacts fact file against rustc's own `-Zunpretty=mir` text (blocks, asserts,
          calls per function)
  mutants run the whole mutant corpus and every seeded change against every property's check
  all     both"""
import json, os, re, subprocess, sys, collections
VERIF = os.path.dirname(os.path.dirname(os.path.abspath(__file__)))
sys.path.insert(0, VERIF)
from wa import extract


def facts_crosscheck():
    facts = extract.extract("/repo")
    env = dict(os.environ, CARGO_TARGET_DIR=os.path.join(VERIF, ".cache", "target-unpretty"), RUSTFLAGS="-Zmir-opt-level=0 -Awarnings", CARGO_NET_OFFLINE="true")
    p = subprocess.run(["cargo", "+nightly", "rustc", "--offline", "--quiet", "--", "-Zunpretty=mir"], cwd="/repo", env=env, stdout=subprocess.PIPE, stderr=subprocess.DEVNULL, text=True)
    cur = None
    stats = {}
    for line in p.stdout.splitlines():
        m = re.match(r"^fn ([^(]+)\(", line)
        if m:
            cur = m.group(1)
            if cur in stats:      # const fn appears twice (runtime + ctfe): keep the first
                cur = None
                continue
            stats[cur] = collections.Counter()
            continue
        if line.startswith("}"):
            cur = None
        if cur is None:
            continue
        if re.match(r"^\s+bb\d+( \(cleanup\))?: \{", line):
            stats[cur]["blocks"] += 1
        if re.search(r"\bassert\(", line):
            stats[cur]["asserts"] += 1
        if re.search(r" -> \[return: bb\d+|-> bb\d+;|-> unwind", line) and re.search(r"= .*\(", line) and "assert(" not in line and "drop(" not in line and "switchInt" not in line:
            stats[cur]["calls"] += 1
    # rustc prints trimmed paths (private items without their module, impl methods as
    # `<impl at file:line>::name`), so functions are grouped by their last path segments and the
    # multisets of (blocks, asserts, calls) are compared per group
    def key(name):
        name = re.sub(r"<impl at [^>]*>", "", name)
        parts = [x for x in re.split(r"::", name) if x and not x.startswith("<")]
        if parts and parts[-1].startswith("{closure"):
            return "::".join(parts[-2:])
        return parts[-1] if parts else name
    mine = collections.defaultdict(list)
    for name, body in facts["bodies"].items():
        if body["kind"] == "Promoted":
            continue
        k = key(name.split(" as ")[-1] if name.startswith("<") else name)
        if name.startswith("<"):
            k = name.rstrip(">").split("::")[-1]
        blocks = len(body["blocks"])
        asserts = sum(1 for b in body["blocks"] if b["term"]["k"] == "assert")
        calls = sum(1 for b in body["blocks"] if b["term"]["k"] == "call")
        mine[k].append((blocks, asserts, calls))
    theirs = collections.defaultdict(list)
    for name, got in stats.items():
        theirs[key(name)].append((got["blocks"], got["asserts"], got["calls"]))
    bad, n = [], 0
    for k, lst in mine.items():
        n += len(lst)
        if sorted(lst) != sorted(theirs.get(k, [])):
            bad.append((k, sorted(lst), sorted(theirs.get(k, []))))
    print("facts cross-check: %d functions compared with -Zunpretty=mir (blocks, asserts, calls); mismatches: %d" % (n, len(bad)))
    for x in bad[:10]:
        print("  MISMATCH", x)
    return not bad and n >= 60


def mutants():
    from tools import mut
    import glob
    from rules import registry
    missed = 0
    total = 0
    for path in sorted(glob.glob(os.path.join(VERIF, "mutants", "*", "*.patch"))):
        r = mut.run_one(path)
        total += 1
        if r["status"] == "MISSED":
            missed += 1
            print("MISSED", r["patch"])
    print("mutant corpus: %d applied, %d missed" % (total, missed))
    seeds = 0
    smiss = 0
    for d in sorted(glob.glob(os.path.join(VERIF, "seeded", "*"))):
        pid = os.path.basename(d).split("-")[0]
        fired = mut.run_seed(os.path.join(d, "patch.diff"), [pid])
        seeds += 1
        if not fired.get(pid):
            smiss += 1
            print("SEED NOT CAUGHT BY OWN CHECK", os.path.basename(d))
    print("seeded changes: %d, not caught by their own property's check: %d" % (seeds, smiss))
    return missed == 0 and smiss == 0


if __name__ == "__main__":
    what = sys.argv[1] if len(sys.argv) > 1 else "all"
    ok = True
    if what in ("facts", "all"):
        ok = facts_crosscheck() and ok
    if what in ("mutants", "all"):
        ok = mutants() and ok
    sys.exit(0 if ok else 1)
