#!/usr/bin/env python3
"""mkprompts.py <round-dir> seed|refactor : write one prompt per property for a round of sub-agents.
The prompt contains only the property text, the worktree path and (for seeds) one-line titles of the
changes already explored for that property; nothing else from /verif."""
import json, os, re, sys
VERIF = os.path.dirname(os.path.dirname(os.path.abspath(__file__)))
base, kind = sys.argv[1], sys.argv[2]
props = [json.loads(l) for l in open(os.path.join(VERIF, "properties.jsonl"))]

HEAD = """You are helping test a verification framework for an open-source Rust project: Walleye, a small UCI chess engine (12x12 mailbox board, legal move generation, Zobrist hashing, alpha-beta/PV search). You have your own scratch git worktree of the repository at {wt} (a detached checkout; work ONLY inside that directory; never touch /repo or /verif, and do not read anything under /verif). The sandbox is offline: use `cargo ... --offline`; the crate is a single binary crate (no lib target), so in-crate unit tests (`#[cfg(test)] mod ...` inside src/*.rs) or a script that drives the built binary over stdin/stdout are the ways to demonstrate behaviour. Never run `pkill`/`killall` (other people run the same binary elsewhere); kill only processes you started, by pid.

The semantic property under test:

Property {id}: {title}

Statement: {statement}

Quantified over: {q}
"""

SEED = """
Already explored by others for this property (do NOT produce variations of these):
{explored}

Your task: produce TWO independent changes to the source of Walleye (different mechanisms, different code sites if possible), each of which
  1. BREAKS the property above (for some input / history / schedule within its quantifier),
  2. still COMPILES and still PASSES the entire existing test suite unchanged (`cd {wt} && cargo test --offline` — 107 tests; do not edit or delete existing tests),
  3. is REALISTIC — the kind of slip or plausible "simplification"/"optimisation"/refactor a maintainer might actually commit (not a gratuitous sabotage), and small (a few lines),
  4. is DIFFERENT IN KIND from the changes listed above — look for another clause of the property, another code site, another mechanism (helper functions, data tables, constants, types, initialisation, a caller rather than the callee, ...),
  5. needs something SPECIFIC to manifest: a particular interleaving, a fault or expiry at a particular point, a multi-step sequence of operations, an unusual input, or two cooperating sites that each look fine alone — NOT something ordinary use would expose at once.

For each change provide a DEMONSTRATION: a new in-crate test (added in a separate hunk/file section, clearly marked) or a small shell/python script driving the binary, which FAILS with the change applied and PASSES on the unchanged tree. You must actually run both (changed and unchanged) and confirm the outcomes. A script demonstration must locate the repository from its own path ({wt}/SEED/<v>/demo.py -> three levels up), build with `cargo build --offline`, use target/debug/walleye, and exit 0 when the property held and 1 when it was violated.

Deliverables — create these files (paths exactly):
  {wt}/SEED/a/patch.diff   — unified diff (git diff format, relative to the repository root, applies with `git apply`) containing ONLY the breaking source change (not the demonstration)
  {wt}/SEED/a/demo.diff    — unified diff adding the demonstration test (or {wt}/SEED/a/demo.sh / demo.py if it is a script driving the binary), applying cleanly on the unchanged tree and on the changed tree
  {wt}/SEED/a/notes.md     — first line: a one-line title of the change; then what the change is, why it breaks the property, what it needs in order to manifest, the exact commands you ran and their observed results
  and the same under {wt}/SEED/b/ for the second change.
When you are done, leave the worktree's tracked source files reverted to the original state (`git -C {wt} checkout -- .`), keeping only the SEED directory. Keep build output inside {wt}/target (default). Finish with a short summary of the two changes (one paragraph each).
"""

REFACTOR = """
Your task is the OPPOSITE of bug seeding: produce THREE independent, realistic, BEHAVIOUR-PRESERVING changes to the code that implements the property above — the kind of clean-up, restructuring or micro-optimisation a maintainer might commit — after each of which the property STILL HOLDS for every input in its quantifier and the observable behaviour of the engine is unchanged. Aim for changes that touch the very code the property depends on and change its SHAPE noticeably, for example: extract a helper function or inline one; replace an `if` chain by a `match` (or the reverse); reorder independent statements or independent `if`s; rename locals; introduce a named constant or a named boolean for a condition; replace a loop by an iterator chain (or the reverse); merge or split a function; pass a value instead of recomputing it; change `a == b` to `b == a`, `!(a < b)` to `a >= b`; move a computation before/after an unrelated one; use early `return`/`continue` instead of nesting. Each of the three should use a different kind of restructuring and preferably a different site. Do NOT change behaviour in any way (no changed constants, no changed output text, no changed order of generated moves, no changed evaluation, no new panics, no removed checks).

Each change must compile without new errors and pass the entire existing test suite unchanged (`cd {wt} && cargo test --offline` — 107 tests; do not edit existing tests). Argue briefly in the notes why behaviour is exactly preserved.

Deliverables — create these files (paths exactly):
  {wt}/REFACTOR/a/patch.diff, {wt}/REFACTOR/b/patch.diff, {wt}/REFACTOR/c/patch.diff — unified diffs (git diff format, relative to the repository root, each applying with `git apply` to the UNCHANGED tree independently of the others)
  {wt}/REFACTOR/<v>/notes.md — first line: a one-line title; then what was restructured and why behaviour is preserved; the test result you observed.
When you are done, leave the worktree's tracked source files reverted to the original state (`git -C {wt} checkout -- .`), keeping only the REFACTOR directory. Finish with a short summary of the three changes.
"""

TAIL = """
Practical notes: `cargo test --offline` takes ~1-2 minutes the first time in a fresh worktree (dependencies are cached offline). The UCI loop reads commands from stdin (`uci`, `isready`, `position startpos moves ...`, `position fen <FEN> moves ...`, `go wtime .. btime .. winc .. binc .. movestogo ..`, `quit`). Private functions can be tested from an in-crate `#[cfg(test)] mod` in the same file. Read the source under {wt}/src to find realistic places.
"""

os.makedirs(base, exist_ok=True)
for p in props:
    pid = p["id"]
    wt = "%s/%s" % (base, pid)
    explored = []
    sd = os.path.join(VERIF, "seeded")
    for d in sorted(os.listdir(sd)):
        if d.startswith(pid + "-"):
            m = json.load(open(os.path.join(sd, d, "meta.json")))
            t = m["summary"].split("\n")[0]
            t = re.sub(r"^#+\s*", "", t)
            t = re.sub(r"^(Seed\s+)?C\d\d\s*[-/]\s*[a-f]\s*[—:-]+\s*", "", t, flags=re.I)
            explored.append("  - " + t[:220])
    txt = HEAD.format(wt=wt, id=pid, title=p["title"], statement=p["statement"], q=p["quantifier"]["text"])
    if kind == "refactor":
        done = []
        rd = os.path.join(VERIF, "refactors")
        for d in sorted(os.listdir(rd)) if os.path.isdir(rd) else []:
            if d.startswith(pid + "-") and os.path.exists(os.path.join(rd, d, "notes.md")):
                t = open(os.path.join(rd, d, "notes.md")).readline().strip().lstrip("# ")
                done.append("  - " + t[:200])
        if done:
            txt += "\nRestructurings already produced by others for this property (do something DIFFERENT in kind or at a different site):\n" + "\n".join(done) + "\n"
    txt += (SEED if kind == "seed" else REFACTOR).format(wt=wt, explored="\n".join(explored))
    txt += TAIL.format(wt=wt)
    open("%s/%s.prompt.txt" % (base, pid), "w").write(txt)
print("wrote", len(props), "prompts to", base)
