"""Hand-written mutant corpus (DESIGN Appendix A): one-hunk edits of the repaired tree that compile,
keep the repository's tests green and break one rule instance.  (pid, name, file, old, new, expect, note)"""

MG = "src/move_generation.rs"
EN = "src/engine.rs"
UC = "src/uci.rs"
BD = "src/board.rs"
DT = "src/draw_table.rs"
TC = "src/time_control.rs"
EV = "src/evaluation.rs"
ZB = "src/zobrist.rs"
SE = "src/search.rs"

SPECS = [
    # ---------------- C01
    ("C01", "revert-fix1-king-class", MG,
     """    let enemy_king = match color {
        White => board.black_king_location,
        Black => board.white_king_location,
    };
    (enemy_king.0 as i8 - square_cords.0 as i8).abs() <= 1
        && (enemy_king.1 as i8 - square_cords.1 as i8).abs() <= 1""",
     """    (board.black_king_location.0 as i8 - board.white_king_location.0 as i8).abs() <= 1
        && (board.black_king_location.1 as i8 - board.white_king_location.1 as i8).abs() <= 1""",
     "R1.3", "king clause ignores the probed square again"),
    ("C01", "king-class-own-king", MG,
     """        White => board.black_king_location,
        Black => board.white_king_location,
    };
    (enemy_king.0""",
     """        White => board.white_king_location,
        Black => board.black_king_location,
    };
    (enemy_king.0""",
     "R1.3", "king clause reads the defender's own king"),
    ("C01", "ep-published-without-gate", MG,
     """            if !is_check(&new_board, board.to_move) {
                new_moves.push(new_board);
            }""",
     """            new_moves.push(new_board);""",
     "R1.1", "en-passant capture published without the legality gate"),
    ("C01", "gate-before-move", MG,
     """        new_board.move_piece(square_cords, mov, zobrist_hasher);
        new_board.last_move = Some((square_cords, mov));

        // if you make your move, and you are in check, this move is not valid
        if is_check(&new_board, color) {
            continue;
        }
""",
     """        // if you make your move, and you are in check, this move is not valid
        if is_check(&new_board, color) {
            continue;
        }
        new_board.move_piece(square_cords, mov, zobrist_hasher);
        new_board.last_move = Some((square_cords, mov));
""",
     "R1.1", "legality gate evaluated before the piece is moved"),
    ("C01", "gate-wrong-colour", MG,
     """            if !is_check(&new_board, board.to_move) {""",
     """            if !is_check(&new_board, new_board.to_move) {""",
     "R1.1", "en-passant gate tests the opponent's king (colour read from the swapped successor)"),
    # ---------------- C02
    ("C02", "revert-fix2-ep", MG,
     """            let mut new_board = board.clone();
            new_board.pawn_promotion = None;
            new_board.last_move = Some((square_cords, mov));""",
     """            let mut new_board = board.clone();
            new_board.last_move = Some((square_cords, mov));""",
     "R2.1", "en-passant successor inherits the promotion flag"),
    ("C02", "revert-fix2-castle-bq", MG,
     """        let mut new_board = board.clone();
        new_board.pawn_promotion = None;
        new_board.swap_color(zobrist_hasher);
        new_board.unset_pawn_double_move(zobrist_hasher);
        new_board.take_away_castling_rights(CastlingType::BlackKingSide, zobrist_hasher);
        new_board.take_away_castling_rights(CastlingType::BlackQueenSide, zobrist_hasher);
        new_board.black_king_location = Point(BOARD_START, BOARD_START + 2);""",
     """        let mut new_board = board.clone();
        new_board.swap_color(zobrist_hasher);
        new_board.unset_pawn_double_move(zobrist_hasher);
        new_board.take_away_castling_rights(CastlingType::BlackKingSide, zobrist_hasher);
        new_board.take_away_castling_rights(CastlingType::BlackQueenSide, zobrist_hasher);
        new_board.black_king_location = Point(BOARD_START, BOARD_START + 2);""",
     "R2.1", "black queen-side castling successor inherits the promotion flag"),
    ("C02", "ep-no-swap", MG,
     """            new_board.last_move = Some((square_cords, mov));
            new_board.swap_color(zobrist_hasher);
            new_board.unset_pawn_double_move(zobrist_hasher);""",
     """            new_board.last_move = Some((square_cords, mov));
            new_board.unset_pawn_double_move(zobrist_hasher);""",
     "R2.2", "en-passant successor keeps the mover to move (kills a test? kept as control)"),
    ("C02", "revert-fix4-capture-only-ep", MG,
     """        if kind == Pawn && (square_cords.0 as i8 - mov.0 as i8).abs() == 2 {
            let en_passant_square = match color {""",
     """        if move_generation_mode == MoveGenerationMode::CapturesOnly {
            // captures never create an en passant target
        } else if kind == Pawn && (square_cords.0 as i8 - mov.0 as i8).abs() == 2 {
            let en_passant_square = match color {""",
     "R2.3", "capture-only successors keep the parent's en-passant target"),
    # ---------------- C05
    ("C05", "revert-fix3-epclear", MG,
     """            // clear any en passant target inherited from the parent before recording the new one
            new_board.unset_pawn_double_move(zobrist_hasher);
            new_board.pawn_double_move = Some(en_passant_square);""",
     """            new_board.pawn_double_move = Some(en_passant_square);""", "R5.2e", "double step over an existing ep target"),
    # ---------------- C07
    ("C07", "drop-clock-recheck", EN,
     """            if evaluation > alpha && !out_of_time(start, time_to_move_ms) {""",
     """            if evaluation > alpha {""",
     "R7.1", "root accepts the value of an aborted sub-search"),
    ("C07", "best-move-above-guard", EN,
     """            search_info.insert_into_cur_line(ply_from_root, mov);

            if evaluation > alpha && !out_of_time(start, time_to_move_ms) {
                //alpha raised, remember this line as the pv
                alpha = evaluation;
                best_move = Some(mov.clone());""",
     """            search_info.insert_into_cur_line(ply_from_root, mov);
            if evaluation > alpha {
                best_move = Some(mov.clone());
            }

            if evaluation > alpha && !out_of_time(start, time_to_move_ms) {
                //alpha raised, remember this line as the pv
                alpha = evaluation;""",
     "R7.1", "best_move recorded before the clock re-check (poisons the PV ordering of the next depth and the fallback)"),
    ("C07", "sentinel-on-repetition", EN,
     """    if draw_table.is_threefold_repetition(board) {
        return 0;
    }""",
     """    if draw_table.is_threefold_repetition(board) {
        return if ply_from_root > 90 { NEG_INF } else { 0 };
    }""",
     "R7.2", "abort sentinel returned on a non-clock path"),
    ("C07", "fallback-sends-second", EN,
     """                    tx.send(moves[0].clone()).unwrap();""",
     """                    tx.send(moves[moves.len() - 1].clone()).unwrap();""",
     "R7.1", "fallback is not the first move in the ordering"),
    ("C07", "null-move-prune-keeps-node", EN,
     """            // null move prune
            draw_table.remove_board_from_draw_table(board);
            return beta;""",
     """            // null move prune
            return beta;""",
     "R10.5", "null-move cut-off leaves the node counted in the repetition table"),
    ("C07", "stalemate-keeps-node", EN,
     """        // stalemate
        draw_table.remove_board_from_draw_table(board);
        return 0;""",
     """        // stalemate
        return 0;""",
     "R10.5", "stalemate return leaves the node counted"),
    # ---------------- C10
    ("C10", "revert-fix5", DT, "if board_count >= 2 {", "if board_count == 2 {", "R10.3", "count 3 is no repetition"),
    ("C10", "threshold-three", DT, "if board_count >= 2 {", "if board_count > 2 {", "R10.3", "needs three earlier occurrences"),
    ("C10", "add-before-test", EN,
     """    // check for draw
    if draw_table.is_threefold_repetition(board) {
        return 0;
    }
""",
     """    draw_table.add_board_to_draw_table(board);
    // check for draw
    if draw_table.is_threefold_repetition(board) {
        draw_table.remove_board_from_draw_table(board);
        return 0;
    }
    draw_table.remove_board_from_draw_table(board);
""",
     "R10.5", "node counts itself before the repetition test: a second occurrence already scores as a draw"),
    ("C07", "sentinels-at-type-limits", EN, "const POS_INF: i32 = 9999999;\nconst NEG_INF: i32 = -POS_INF;", "const POS_INF: i32 = i32::MAX;\nconst NEG_INF: i32 = i32::MIN;", "R7.9", "NEG_INF = i32::MIN: the first negation of the abort sentinel / of the root window overflows"),
    ("C07", "assert-on-line-length", EN, "    moves.sort_unstable_by_key(|k| Reverse(k.order_heuristic));\n    search_info.insert_into_cur_line(ply_from_root, &moves[0]);", "    moves.sort_unstable_by_key(|k| Reverse(k.order_heuristic));\n    assert!(ply_from_root < 64, \"line too long\");\n    search_info.insert_into_cur_line(ply_from_root, &moves[0]);", "R7.10", "an assert! in the search: lines reach ply 64 through check extensions and the null-move offset, the search thread dies"),
    ("C07", "revert-fix10-plycap", EN,
     """    if ply_from_root >= MAX_DEPTH as i32 {
        return quiesce(board, alpha, beta, search_info, zobrist_hasher);
    }

""", "", "R7.7", "ply unbounded again: per-ply tables indexed out of bounds at iteration depth 41 (null-move ply offset)"),
    ("C07", "plycap-off-by-one", EN, "    if ply_from_root >= MAX_DEPTH as i32 {", "    if ply_from_root > MAX_DEPTH as i32 {", "R7.7", "ply 100 still indexes a 100-entry table"),
    ("C08", "nullmove-ply-offset-after-cap", EN, "            ply_from_root + 10, //hack", "            ply_from_root + 10 + i32::MAX - 200, //hack", "R7.7", "ply arithmetic can overflow"),
    ("C15", "revert-fix11-fen-arg", "src/main.rs",
     """    let fen = matches
        .value_of_lossy("fen")
        .unwrap_or_else(|| board::DEFAULT_FEN_STRING.into());
    let board = match board::BoardState::from_fen(&fen) {""",
     """    let fen = matches.value_of("fen").unwrap_or(board::DEFAULT_FEN_STRING);
    let board = match board::BoardState::from_fen(fen) {""", "R15.5", "--fen with non-UTF-8 bytes panics in clap before from_fen sees it"),
    ("C17", "revert-fix12-stdin-utf8", UC,
     """    // read the line as bytes, a line that is not valid UTF-8 is garbage to be ignored like any other
    let mut raw = Vec::new();
    if stdin.lock().read_until(b'\\n', &mut raw).unwrap() == 0 {
        // end of input, the GUI is gone so treat it like quit
        info!("ENGINE << end of input");
        process::exit(0);
    }
    let mut buffer = String::from_utf8_lossy(&raw).into_owned();
""",
     """    let mut buffer = String::new();
    if stdin.lock().read_line(&mut buffer).unwrap() == 0 {
        // end of input, the GUI is gone so treat it like quit
        info!("ENGINE << end of input");
        process::exit(0);
    }
""", "R17.3", "a line that is not valid UTF-8 panics the engine again"),
    ("C17", "lossy-replaced-by-strict-decode", UC,
     """    let mut buffer = String::from_utf8_lossy(&raw).into_owned();""",
     """    let mut buffer = String::from_utf8(raw).unwrap();""", "R17.3", "strict decoding unwrapped: garbage bytes terminate the engine"),
    ("C17", "read-error-returns-empty-line", UC,
     """    if stdin.lock().read_until(b'\\n', &mut raw).unwrap() == 0 {""",
     """    if stdin.lock().read_until(b'\\n', &mut raw).unwrap_or(1) == 0 {""", "R17.3", "a failed read is handed back as an (empty) line: a persistent error spins the loop"),
    # ---------------- C08
    ("C08", "revert-fix9", UC,
     """        match rx.try_recv() {
            Ok(b) => best_move = Some(b),
            Err(mpsc::TryRecvError::Disconnected) if best_move.is_none() => {
                // the search ended without sending anything, there is no legal move to play (mate or stalemate)
                send_to_gui("bestmove 0000");
                return board.clone();
            }
            Err(_) => thread::sleep(Duration::from_millis(1)),
        }""",
     """        if let Ok(b) = rx.try_recv() {
            best_move = Some(b);
        } else {
            thread::sleep(Duration::from_millis(1));
        }""",
     "R8.1", "hang on mate/stalemate root"),
    ("C08", "disconnected-continues", UC,
     """                send_to_gui("bestmove 0000");
                return board.clone();""",
     """                thread::sleep(Duration::from_millis(5));
                continue;""",
     "R8.1", "Disconnected arm keeps waiting"),
    # ---------------- C11
    ("C11", "swap-terminal-returns", EN,
     """        if is_check(board, board.to_move) {
            // checkmate""",
     """        if !is_check(board, board.to_move) {
            // checkmate""",
     "R11.1", "stalemate scored as mate and mate as draw"),
    ("C11", "mate-plus-ply", EN,
     """            let mate_score = MATE_SCORE - ply_from_root;""",
     """            let mate_score = MATE_SCORE + ply_from_root;""",
     "R11.1", "farther mates score better for the winner"),
    # ---------------- C12
    ("C12", "drop-negation-research", EN,
     """            score = -alpha_beta_search(
                start,
                time_to_move_ms,
                mov,
                depth - 1,
                ply_from_root + 1,
                -beta,
                -alpha,""",
     """            score = alpha_beta_search(
                start,
                time_to_move_ms,
                mov,
                depth - 1,
                ply_from_root + 1,
                -beta,
                -alpha,""",
     "R12.1", "re-search result not negated"),
    # ---------------- C15
    ("C15", "revert-fix7", BD, "let full_move_clock = fen_config[5].parse::<u32>();", "let full_move_clock = fen_config[5].parse::<u8>();", "R15.2", "counter width"),
    ("C15", "drop-square-guard", BD,
     """                if row >= BOARD_END || col >= BOARD_END {
                    return Err("Too many squares specified for board");
                }
""", """""", "R15.1", "no guard: a ninth piece letter in a row indexes past the board array"),
    ("C15", "skip-guard-13", BD, "if square_skip_count + col > BOARD_END {", "if square_skip_count + col > BOARD_END + 3 {", "R15.1", "skip loop may index column 12"),
    ("C15", "len-guard-weaker", BD, "if fen_config.len() != 6 {", "if fen_config.len() < 5 {", "R15.1", "fen_config[5] out of range for 5 fields"),
    ("C15", "rank-unwrap-again", BD,
     """        let row = match r.to_digit(10) {
            Some(digit) => BOARD_END - (digit as usize),
            None => return Err("Invalid row"),
        };""",
     """        let row = BOARD_END - (r.to_digit(10).unwrap() as usize);""",
     "R15.1", "revert of fix 6 (rank digit unwrapped)"),
    # ---------------- C17
    ("C17", "revert-fix8", UC,
     """    if stdin.lock().read_until(b'\\n', &mut raw).unwrap() == 0 {
        // end of input, the GUI is gone so treat it like quit
        info!("ENGINE << end of input");
        process::exit(0);
    }""",
     """    stdin.lock().read_until(b'\\n', &mut raw).unwrap();""",
     "R17.3", "EOF ignored"),
    ("C17", "eof-only-logged", UC,
     """        info!("ENGINE << end of input");
        process::exit(0);""",
     """        info!("ENGINE << end of input");""",
     "R17.3", "EOF detected but the engine keeps going"),
    # ---------------- C03
    ("C03", "fallback-sends-root", EN,
     """                    tx.send(moves[0].clone()).unwrap();""",
     """                    tx.send(board.clone()).unwrap();""",
     "R3.2", "fallback sends the root position instead of a successor"),
    ("C03", "root-list-captures-only", EN,
     """        moves = generate_moves(board, MoveGenerationMode::AllMoves, &zobrist_hasher);
        if let Some(b) = &best_move {""",
     """        moves = generate_moves(board, MoveGenerationMode::CapturesOnly, &zobrist_hasher);
        if let Some(b) = &best_move {""",
     "R3.2", "root list regenerated in capture-only mode from depth 2 on"),

    # ---------------- C18
    ("C18", "depth-starts-zero", EN, "    let mut cur_depth = 1;", "    let mut cur_depth = 0;", "R18.3", "depth 0 reported (and cur_depth - 1 underflows)"),
    ("C18", "mate-n-no-round-up", EN, "            (MATE_SCORE - eval + 1) / 2,", "            (MATE_SCORE - eval) / 2,", "R18.4", "mate in one printed as mate 0"),
    ("C18", "window-one-sided", EN, "    } else if eval <= -MATE_SCORE + mate_window {", "    } else if eval <= -MATE_SCORE {", "R18.4", "being mated printed as a centipawn score near -100000"),
    ("C18", "info-on-equal", EN, "            if evaluation > alpha && !out_of_time(start, time_to_move_ms) {", "            if evaluation >= alpha && !out_of_time(start, time_to_move_ms) {", "R18.3", "lines within a depth no longer strictly improve"),
    ("C18", "pv-set-after-info", EN,
     """                search_info.set_principle_variation();
                send_search_info(&search_info, cur_depth, evaluation, start);""",
     """                send_search_info(&search_info, cur_depth, evaluation, start);
                search_info.set_principle_variation();""", "R18.3", "info line printed with the previous PV"),
    ("C18", "extra-info-string", EN,
     """    search_info.node_searched();

    // check for draw""",
     """    search_info.node_searched();
    if search_info.nodes_searched % 5_000_000 == 0 {
        send_to_gui("info string still searching");
    }

    // check for draw""", "R18.1", "info line of another form from inside the search"),
    ("C18", "cp-template-typo", EN, """            "info pv{} depth {} nodes {} score cp {} time {}",""", """            "info pv{} depth {} nodes {} cp {} time {}",""", "R18.1", "malformed cp line"),
    # ---------------- C11 (R11.3 through the info rule)
    ("C11", "mate-n-no-round-up", EN, "            (MATE_SCORE - eval + 1) / 2,", "            (MATE_SCORE - eval) / 2,", "R18.4", "mate in one printed as mate 0"),
    ("C11", "mated-n-sign", EN, "            (MATE_SCORE + eval) / -2,", "            (MATE_SCORE + eval) / 2,", "R18.4", "being mated announced as mating"),
    # ---------------- C13
    ("C13", "promotion-only-in-all-moves", MG,
     """        if mov.0 == BOARD_START && color == White && kind == Pawn {""",
     """        if move_generation_mode == MoveGenerationMode::CapturesOnly {
            new_moves.push(new_board);
        } else if mov.0 == BOARD_START && color == White && kind == Pawn {""", "R13.1", "capture-promotions leave a pawn on the last rank in quiescence"),
    # ---------------- C16
    ("C16", "position-without-clear", UC, """                draw_table.clear();
""", "", "R10.1", "repetition record survives a new position command"),
    ("C16", "static-mut-counter", UC,
     """pub fn send_to_gui(message: &str) {""",
     """static GO_COUNT: std::sync::atomic::AtomicU32 = std::sync::atomic::AtomicU32::new(0);

pub fn send_to_gui(message: &str) {
    GO_COUNT.fetch_add(1, std::sync::atomic::Ordering::Relaxed);""", "R16.1", "hidden global state"),
    ("C16", "ucinewgame-resets-nothing-but-go-reads-old-table", UC,
     """            "ucinewgame" => (), // we don't keep any internal state really so no need to reset anything here""",
     """            "ucinewgame" => draw_table.add_board_to_draw_table(&board),""", "R16.5", "ucinewgame changes the repetition record"),
    # ---------------- C17
    ("C17", "default-arm-resets-board", UC,
     """            _ => error!("Unrecognized command: {}", buffer),""",
     """            _ => {
                error!("Unrecognized command: {}", buffer);
                board = BoardState::from_fen(DEFAULT_FEN_STRING).unwrap();
            }""", "R17.1", "garbage line resets the position"),
    ("C17", "isready-only-when-idle", UC,
     """            "isready" => send_to_gui("readyok"),""",
     """            "isready" => {
                if commands.len() == 1 {
                    send_to_gui("readyok")
                }
            }""", "R17.2", "isready with trailing tokens unanswered"),
    ("C17", "quit-returns-to-loop", UC, """            "quit" => process::exit(1),""", """            "quit" => info!("bye"),""", "R17.2", "quit ignored"),

    # ---------------- castling tables (C01 R1.2, C02 R2.6)
    ("C01", "wk-transit-g1-unchecked", MG,
     """    if is_check_cords(board, White, Point(BOARD_END - 1, BOARD_END - 3))
        || is_check_cords(board, White, Point(BOARD_END - 1, BOARD_END - 2))
    {""",
     """    if is_check_cords(board, White, Point(BOARD_END - 1, BOARD_END - 3)) {""", "R1.2", "white king may castle into an attacked g1"),
    ("C01", "bq-transit-off-by-one", MG,
     """    if is_check_cords(board, Black, Point(BOARD_START, BOARD_START + 2))
        || is_check_cords(board, Black, Point(BOARD_START, BOARD_START + 3))""",
     """    if is_check_cords(board, Black, Point(BOARD_START, BOARD_START + 1))
        || is_check_cords(board, Black, Point(BOARD_START, BOARD_START + 3))""", "R1.2", "b8 tested instead of c8"),
    ("C01", "wq-b1-not-required-empty", MG,
     """    if !(board.board[BOARD_END - 1][BOARD_START + 1]).is_empty()
        || !(board.board[BOARD_END - 1][BOARD_START + 2]).is_empty()
        || !(board.board[BOARD_END - 1][BOARD_START + 3]).is_empty()
    {
        return false;
    }
    // check that the king currently isn't in check
    if is_check(board, White) {""",
     """    if !(board.board[BOARD_END - 1][BOARD_START + 2]).is_empty()
        || !(board.board[BOARD_END - 1][BOARD_START + 3]).is_empty()
    {
        return false;
    }
    // check that the king currently isn't in check
    if is_check(board, White) {""", "R1.2", "queen-side castling over a piece on b1"),
    ("C01", "bk-wrong-flag", MG, """    if !board.black_king_side_castle {
        return false;
    }""", """    if !board.black_queen_side_castle {
        return false;
    }""", "R1.2", "black king side tests the queen-side right"),
    ("C01", "wk-check-other-colour", MG,
     """    if is_check(board, White) {
        return false;
    }
    //check that the squares required for castling are not threatened
    if is_check_cords(board, White, Point(BOARD_END - 1, BOARD_END - 3))""",
     """    if is_check(board, Black) {
        return false;
    }
    //check that the squares required for castling are not threatened
    if is_check_cords(board, White, Point(BOARD_END - 1, BOARD_END - 3))""", "R1.2", "castling out of check allowed"),
    ("C02", "castle-king-dest-off", MG, """        new_board.black_king_location = Point(BOARD_START, BOARD_END - 2);""", """        new_board.black_king_location = Point(BOARD_START, BOARD_END - 3);""", "R2.6", "black king-side castle puts the king on f8"),
    ("C02", "castle-rook-dest-off", MG,
     """            Point(BOARD_END - 1, BOARD_START),
            Point(BOARD_END - 1, BOARD_START + 3),
            zobrist_hasher,
        );
        new_moves.push(new_board);""",
     """            Point(BOARD_END - 1, BOARD_START),
            Point(BOARD_END - 1, BOARD_START + 2),
            zobrist_hasher,
        );
        new_moves.push(new_board);""", "R2.6", "white queen-side rook lands on c1 (on top of the king)"),
    ("C02", "castle-keeps-other-right", MG,
     """        new_board.take_away_castling_rights(CastlingType::WhiteKingSide, zobrist_hasher);
        new_board.take_away_castling_rights(CastlingType::WhiteQueenSide, zobrist_hasher);
        new_board.white_king_location = Point(BOARD_END - 1, BOARD_END - 2);""",
     """        new_board.take_away_castling_rights(CastlingType::WhiteKingSide, zobrist_hasher);
        new_board.white_king_location = Point(BOARD_END - 1, BOARD_END - 2);""", "R2.6", "after O-O White keeps the queen-side right"),
    ("C02", "castle-alg-const-swapped", MG, """        new_board.last_move = BLACK_QUEEN_SIDE_CASTLE_ALG;""", """        new_board.last_move = BLACK_KING_SIDE_CASTLE_ALG;""", "R2.6", "O-O-O printed as e8g8"),
    ("C02", "king-cache-after-gate", MG,
     """        // update king location if we are moving the king
        if kind == King {
            match color {
                White => new_board.white_king_location = mov,
                Black => new_board.black_king_location = mov,
            }
        }

        let target_square""",
     """        let target_square""", "R2.5", "king cache never updated for king moves (kills tests? control)"),

    # ---------------- pseudo-move generators (C01 / C13)
    ("C13", "knight-captures-only-pushes-empty", MG,
     """            if move_generation_mode == MoveGenerationMode::CapturesOnly {
                if !square.is_empty() {
                    moves.push(Point(row, col));
                }
            } else {
                moves.push(Point(row, col));
            }
        }
    }
}

/*
    Generate pseudo-legal moves for a pawn""",
     """            moves.push(Point(row, col));
        }
    }
}

/*
    Generate pseudo-legal moves for a pawn""", "R13.2", "quiet knight moves in capture-only generation"),
    ("C13", "castling-in-captures-only", MG,
     """    if move_gen_mode == MoveGenerationMode::AllMoves {
        generate_castling_moves(board, &mut new_moves, zobrist_hasher);
    }""",
     """    generate_castling_moves(board, &mut new_moves, zobrist_hasher);""", "R1.6", "castling offered as a capture"),
    ("C13", "rook-walk-pushed-in-captures-only", MG,
     """        while square.is_empty() {
            if move_generation_mode == MoveGenerationMode::AllMoves {
                moves.push(Point(row as usize, col as usize));
            }
            row += r;
            col += c;
            square = board.board[row as usize][col as usize];
        }

        if square.is_color(piece.color.opposite()) {
            moves.push(Point(row as usize, col as usize));
        }
    }
}

/*
    Generate pseudo-legal moves for a bishop""",
     """        while square.is_empty() {
            moves.push(Point(row as usize, col as usize));
            row += r;
            col += c;
            square = board.board[row as usize][col as usize];
        }

        if square.is_color(piece.color.opposite()) {
            moves.push(Point(row as usize, col as usize));
        }
    }
}

/*
    Generate pseudo-legal moves for a bishop""", "R1.4", "quiet rook moves in capture-only generation"),
    ("C01", "white-pawn-captures-any-piece", MG,
     """            if let Square::Full(Piece { color: Black, .. }) = right_cap {
                moves.push(Point(row - 1, col + 1));
            }""",
     """            if let Square::Full(_) = right_cap {
                moves.push(Point(row - 1, col + 1));
            }""", "R1.5", "white pawn captures its own pieces to the right"),
    ("C01", "ep-from-wrong-rank", MG, """            Black if row == BOARD_START + 4 => {""", """            Black if row >= BOARD_START + 4 => {""", "R1.5e", "black en passant from any rank beyond the fifth"),
    ("C01", "bishop-direction-typo", MG, """    for (r, c) in &[(1, -1), (1, 1), (-1, 1), (-1, -1)] {
        let mut row = row as i8 + r;
        let mut col = col as i8 + c;
        let mut square = board.board[row as usize][col as usize];
        while square.is_empty() {
            if move_generation_mode""", """    for (r, c) in &[(1, -1), (1, 1), (-1, 1), (-1, 1)] {
        let mut row = row as i8 + r;
        let mut col = col as i8 + c;
        let mut square = board.board[row as usize][col as usize];
        while square.is_empty() {
            if move_generation_mode""", "R1.4", "one bishop diagonal generated twice, one never"),
    ("C01", "king-neighbourhood-short", MG, """    for i in 0..3 {
        let row = row + i - 1;
        for j in 0..3 {""", """    for i in 0..3 {
        let row = row + i - 1;
        for j in 0..2 {""", "R13.2", "king never moves to the right"),
    ("C06", "attack-bishop-vs-rook", MG, """        if square == attacking_bishop || square == attacking_queen {
            return true;
        }""", """        if square == attacking_rook || square == attacking_queen {
            return true;
        }""", "R6.2", "diagonal attackers compared with the rook"),
    ("C06", "attack-walk-through-own-pieces", MG, """        let mut square = board.board[row as usize][col as usize];
        while square.is_empty() {
            row += r;
            col += c;
            square = board.board[row as usize][col as usize];
        }

        if square == attacking_rook || square == attacking_queen {""", """        let mut square = board.board[row as usize][col as usize];
        while square.is_empty() || square.is_color(color) {
            row += r;
            col += c;
            square = board.board[row as usize][col as usize];
        }

        if square == attacking_rook || square == attacking_queen {""", "R6.3", "rook rays see through the defender's own pieces"),
    ("C06", "pawn-attack-row-swapped", MG, """        White => square_cords.0 - 1,
        Black => square_cords.0 + 1,
    };""", """        White => square_cords.0 + 1,
        Black => square_cords.0 - 1,
    };""", "R6.2", "pawns attack backwards (killed by tests; control)"),
    ("C06", "king-manhattan", MG, """    (enemy_king.0 as i8 - square_cords.0 as i8).abs() <= 1
        && (enemy_king.1 as i8 - square_cords.1 as i8).abs() <= 1""", """    (enemy_king.0 as i8 - square_cords.0 as i8).abs() + (enemy_king.1 as i8 - square_cords.1 as i8).abs() <= 1""", "R6.4", "diagonal king contact not seen"),
    ("C06", "is_check-wrong-king", MG, """        White => is_check_cords(board, White, board.white_king_location),
        Black => is_check_cords(board, Black, board.black_king_location),""", """        White => is_check_cords(board, White, board.white_king_location),
        Black => is_check_cords(board, Black, board.white_king_location),""", "R6.1", "black's check status probed on the white king square (killed by tests; control)"),

    # ---------------- C12 windows and guards
    ("C12", "window-not-swapped", EN,
     """    let mut best_score = -alpha_beta_search(
        start,
        time_to_move_ms,
        &moves[0],
        depth - 1,
        ply_from_root + 1,
        -beta,
        -alpha,""",
     """    let mut best_score = -alpha_beta_search(
        start,
        time_to_move_ms,
        &moves[0],
        depth - 1,
        ply_from_root + 1,
        -alpha,
        -beta,""", "R12.2", "first move searched with an inverted window"),
    ("C12", "cutoff-on-alpha", EN,
     """        if score > best_score {
            if score >= beta {""",
     """        if score > best_score {
            if score >= alpha {""", "R12.3", "cut-off as soon as a move reaches alpha"),
    ("C12", "research-guard-beyond-beta", EN, """        if score > alpha && score < beta {""", """        if score > alpha {""", "R12.3", "re-search also for fail-high scores (value-preserving? costs time only) - checks the guard shape"),
    ("C12", "skip-two", EN, """    for mov in moves.iter().skip(1) {""", """    for mov in moves.iter().skip(2) {""", "R12.4", "second move never searched"),
    ("C12", "null-move-depth-1", EN, """    if allow_null && depth >= 3 && !is_check(board, board.to_move) {""", """    if allow_null && depth >= 1 && !is_check(board, board.to_move) {""", "R12.5", "speculative pruning at shallow depth"),
    ("C12", "quiesce-alpha-raise-nonstrict", EN, """        if score > alpha {
            alpha = score;
        }
    }
    alpha
}""", """        if score >= beta - 1 {
            alpha = score;
        }
    }
    alpha
}""", "R12.3", "alpha replaced by a score that need not exceed it"),
    ("C11", "mate-distance-clamp-sign", EN, """    alpha = max(alpha, -MATE_SCORE + ply_from_root);""", """    alpha = max(alpha, -MATE_SCORE - ply_from_root);""", "R11.2", "mate-distance pruning bound moves the wrong way"),
    # ---------------- C03 notation
    ("C03", "letter-table-swap", UC, """            'n' => Knight,
            'b' => Bishop,""", """            'n' => Bishop,
            'b' => Knight,""", "R3.6", "replayed under-promotions swap knight and bishop"),
    ("C03", "double-reply", UC, """    let board = best_move.unwrap();
    send_best_move_to_gui(&board);""", """    let board = best_move.unwrap();
    send_best_move_to_gui(&board);
    if board.pawn_promotion.is_some() {
        send_best_move_to_gui(&board);
    }""", "R3.1", "two bestmove lines after a promotion"),
    ("C03", "go-arm-discards-board", UC, """                board = find_and_play_best_move(&commands, &mut board, start, &mut draw_table);""", """                find_and_play_best_move(&commands, &mut board, start, &mut draw_table);""", "R3.5", "consecutive go commands search the same position again"),
    ("C03", "rank-table-typo", BD, """                3 => "7",
                4 => "6",""", """                3 => "6",
                4 => "7",""", "R3.6", "ranks 6 and 7 printed swapped"),
    ("C02", "last-move-swapped", MG, """        new_board.last_move = Some((square_cords, mov));

        // if you make your move""", """        new_board.last_move = Some((mov, square_cords));

        // if you make your move""", "R2.7", "move descriptor reversed"),
    ("C02", "ep-removes-wrong-square", MG, """                new_board.board[mov.0 - 1][mov.1] = Square::Empty;
                new_board.zobrist_key ^=
                    zobrist_hasher.get_val_for_piece(Piece::pawn(White), Point(mov.0 - 1, mov.1));""", """                new_board.board[mov.0 + 1][mov.1] = Square::Empty;
                new_board.zobrist_key ^=
                    zobrist_hasher.get_val_for_piece(Piece::pawn(White), Point(mov.0 + 1, mov.1));""", "R2.7", "black en-passant capture removes the square in front of the target"),

    # ---------------- C15 tables / layout / CLI
    ("C15", "fen-letter-swap", BD, """            'n' => Some(Piece {
                color: Black,
                kind: Knight,
            }),
            'b' => Some(Piece {
                color: Black,
                kind: Bishop,
            }),""", """            'n' => Some(Piece {
                color: Black,
                kind: Bishop,
            }),
            'b' => Some(Piece {
                color: Black,
                kind: Knight,
            }),""", "R15.3", "black knights and bishops swapped on load (killed by tests? control)"),
    ("C15", "castle-letter-case", BD, """            black_queen_side_castle: castling_privileges.find('q') != None,""", """            black_queen_side_castle: castling_privileges.find('Q') != None,""", "R15.3", "black queen-side right read from the white letter"),
    ("C15", "main-unwraps-fen", "src/main.rs", """    let board = match board::BoardState::from_fen(&fen) {
        Ok(b) => b,
        Err(err) => {
            println!("{}", err);
            return;
        }
    };""", """    let board = board::BoardState::from_fen(&fen).unwrap();""", "R15.5", "CLI panics on a bad FEN"),
    ("C15", "row-completeness-dropped", BD, """            if col != BOARD_END {
                return Err("Could not parse fen string: Complete row was not specified");
            }
""", "", "R15.4", "short FEN rows accepted, leaving sentinel squares inside the board"),
    ("C15", "ep-field-ignored", BD, """            pawn_double_move: en_passant_pos,""", """            pawn_double_move: None,""", "R15.3", "en-passant square of the FEN dropped (key and state disagree too)"),

    ("C15", "placement-longer-than-64-rejected", BD, "        let fen_rows: Vec<&str> = fen_config[0].split('/').collect();", "        if fen_config[0].len() > 64 {\n            return Err(\"Could not parse fen string: Piece placement is too long\");\n        }\n        let fen_rows: Vec<&str> = fen_config[0].split('/').collect();", "R15.7", "64 squares but up to 71 characters: fragmented legal positions are refused"),
    ("C11", "revert-fix13-pv-by-squares-only", EN, "                if mov.last_move == b.last_move && mov.pawn_promotion == b.pawn_promotion {", "                if mov.last_move == b.last_move {", "R11.7", "previous best root move re-identified by (from, to) only: an under-promotion that mates is replaced by the queen promotion at the start of the next pass"),
    ("C11", "revert-fix14-no-drain", UC, "    while let Ok(b) = rx.try_recv() {\n        best_move = Some(b);\n    }\n", "", "R11.8", "wait loop left on 'deadline passed and a move in hand': queued newer moves are not played"),
]

# Behaviour-preserving refactors: every check must stay SILENT on these (false-alarm controls).
# (name, file, old, new, note) ; several edits may share a name (applied together).
EQUIV = [
    ("rename-fen-king-locals", BD, "white_king_location = Point(row, col)", "white_king_location = Point(row, col) /* renamed below */", "placeholder so that the multi-edit applies"),
    ("reorder-successor-prologue", MG,
     """        let mut new_board = board.clone();
        new_board.pawn_promotion = None;
        new_board.swap_color(zobrist_hasher);

        // update king location if we are moving the king""",
     """        let mut new_board = board.clone();
        new_board.swap_color(zobrist_hasher);
        new_board.pawn_promotion = None;

        // update king location if we are moving the king""", "swap and promotion reset exchanged"),
    ("threefold-gt-one", DT, "if board_count >= 2 {", "if board_count > 1 {", "same predicate, other spelling"),
    ("time-slice-reordered-arith", TC, "(base_time * MAX_USAGE / mtg).round() as u128", "(MAX_USAGE * base_time / mtg).round() as u128", "commuted product"),
    ("eof-exit-status", UC, "        process::exit(0);", "        process::exit(2);", "other exit status on EOF"),
    ("castle-tests-reordered", MG,
     """    if is_check_cords(board, White, Point(BOARD_END - 1, BOARD_END - 3))
        || is_check_cords(board, White, Point(BOARD_END - 1, BOARD_END - 2))""",
     """    if is_check_cords(board, White, Point(BOARD_END - 1, BOARD_END - 2))
        || is_check_cords(board, White, Point(BOARD_END - 1, BOARD_END - 3))""", "transit squares tested in the other order"),
    ("king-class-via-max", MG,
     """    (enemy_king.0 as i8 - square_cords.0 as i8).abs() <= 1
        && (enemy_king.1 as i8 - square_cords.1 as i8).abs() <= 1""",
     """    std::cmp::max(
        (enemy_king.0 as i8 - square_cords.0 as i8).abs(),
        (enemy_king.1 as i8 - square_cords.1 as i8).abs(),
    ) <= 1""", "Chebyshev distance written with max"),
    ("null-move-guard-reordered", EN, "    if allow_null && depth >= 3 && !is_check(board, board.to_move) {", "    if depth >= 3 && allow_null && !is_check(board, board.to_move) {", "conjuncts reordered"),
    ("info-window-const", EN, "    let mate_window = 15;", "    let mate_window = 20;", "wider mate window (still consistent in all arms)"),
    ("go-unknown-arm-comment", UC, "            _ => (),\n        }\n        i += 1;", "            _ => {}\n        }\n        i += 1;", "unit arm spelled as a block"),
    ("ucinewgame-clears-table", UC, """            "ucinewgame" => (), // we don't keep any internal state really so no need to reset anything here""", """            "ucinewgame" => draw_table.clear(),""", "harmless extra reset: position clears anyway"),
    ("poll-sleep-2ms", UC, "Err(_) => thread::sleep(Duration::from_millis(1)),", "Err(_) => thread::sleep(Duration::from_millis(2)),", "polling period"),
    ("send-before-record", EN, """                best_move = Some(mov.clone());
                tx.send(mov.clone()).unwrap();""", """                tx.send(mov.clone()).unwrap();
                best_move = Some(mov.clone());""", "same region, other order"),
    ("quiesce-standpat-gt", EN, """    if alpha < stand_pat {
        alpha = stand_pat;
    }""", """    if stand_pat > alpha {
        alpha = stand_pat;
    }""", "comparison spelled the other way round"),
    ("corner-ifs-reordered", UC, """    if player_move.contains("a8") {
        board.take_away_castling_rights(CastlingType::BlackQueenSide, zobrist_hasher);
    }
    if player_move.contains("h8") {
        board.take_away_castling_rights(CastlingType::BlackKingSide, zobrist_hasher);
    }""", """    if player_move.contains("h8") {
        board.take_away_castling_rights(CastlingType::BlackKingSide, zobrist_hasher);
    }
    if player_move.contains("a8") {
        board.take_away_castling_rights(CastlingType::BlackQueenSide, zobrist_hasher);
    }""", "independent ifs reordered"),
    ("fen-rows-checked-earlier", BD, """        let half_move_clock = fen_config[4].parse::<u32>();
        if half_move_clock.is_err() {
            return Err("Could not parse fen string: Invalid half move value");
        }
""", """        if fen_config[0].split('/').count() != 8 {
            return Err("Could not parse fen string: Invalid number of rows provided, 8 expected");
        }
        let half_move_clock = fen_config[4].parse::<u32>();
        if half_move_clock.is_err() {
            return Err("Could not parse fen string: Invalid half move value");
        }
""", "additional early rejection of the same malformed input"),
    ("go-arms-reordered", UC, """            "wtime" => {
                gt.wtime = commands[i + 1].parse().unwrap();
                i += 1;
            }
            "btime" => {
                gt.btime = commands[i + 1].parse().unwrap();
                i += 1;
            }""", """            "btime" => {
                gt.btime = commands[i + 1].parse().unwrap();
                i += 1;
            }
            "wtime" => {
                gt.wtime = commands[i + 1].parse().unwrap();
                i += 1;
            }""", "match arms reordered"),
    ("mate-window-named-const", EN, """    let mate_window = 15;
    if eval >= MATE_SCORE - mate_window {""", """    const MATE_WINDOW: i32 = 15;
    let mate_window = MATE_WINDOW;
    if eval >= MATE_SCORE - mate_window {""", "window as a named constant"),
    ("setoption-guarded-positional", UC, """                if commands.contains(&"DebugLogLevel") && commands.contains(&"Info") {""", """                if commands.len() > 4 && commands[2] == "DebugLogLevel" && commands[4] == "Info" {""", "positional match behind a length guard"),
    ("fen-len-lt-guard", BD, """        if fen_config.len() != 6 {""", """        if fen_config.len() < 6 || fen_config.len() > 6 {""", "same length test as two inequalities"),
    ("promotion-loop-by-index", MG, """    for kind in [Queen, Knight, Bishop, Rook] {
        let mut new_board = board.clone();""", """    let kinds = [Queen, Knight, Bishop, Rook];
    for kind in kinds {
        let mut new_board = board.clone();""", "kinds array named"),
]
