#!/usr/bin/env python3
"""collect_refactors.py <round-dir> <letters e.g. def>: copy <round-dir>/<ID>/REFACTOR/{a,b,c}/ into
/verif/refactors/<ID>-<letter>/ (patch.diff + notes.md) for finished agents."""
import os, shutil, sys
VERIF = os.path.dirname(os.path.dirname(os.path.abspath(__file__)))
base, letters = sys.argv[1], sys.argv[2]
n = 0
for pid in sorted(os.listdir(base)):
    rd = os.path.join(base, pid, "REFACTOR")
    if not os.path.isdir(rd):
        continue
    for src, dst in zip("abc", letters):
        p = os.path.join(rd, src, "patch.diff")
        nt = os.path.join(rd, src, "notes.md")
        if os.path.exists(p) and os.path.exists(nt):
            out = os.path.join(VERIF, "refactors", "%s-%s" % (pid, dst))
            os.makedirs(out, exist_ok=True)
            shutil.copy(p, out)
            shutil.copy(nt, out)
            n += 1
print("collected", n)
