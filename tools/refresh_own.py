#!/usr/bin/env python3
"""refresh_own.py [-j N] [GLOB]: quick variant of refresh_seeds.py - re-run only the check of the property
each seeded change was written against and update that entry of meta.json's detected_by."""
import json, os, sys, glob
from concurrent.futures import ProcessPoolExecutor
VERIF = os.path.dirname(os.path.dirname(os.path.abspath(__file__)))
sys.path.insert(0, VERIF)
from tools import mut


def one(d):
    mp = os.path.join(d, "meta.json")
    m = json.load(open(mp))
    own = m["breaks_property"]
    fired = mut.run_seed(os.path.join(d, "patch.diff"), [own])
    keys = fired.get(own, [])
    m.setdefault("detected_by", {})
    if keys:
        m["detected_by"][own] = keys
    else:
        m["detected_by"].pop(own, None)
    m["caught_by_own_property_check"] = bool(keys) and "PATCH-DOES-NOT-APPLY" not in keys
    json.dump(m, open(mp, "w"), indent=1)
    return os.path.basename(d), m["caught_by_own_property_check"], keys[:2]


if __name__ == "__main__":
    a = sys.argv[1:]
    j = 8
    if a[:1] == ["-j"]:
        j = int(a[1])
        a = a[2:]
    dirs = sorted(glob.glob(a[0] if a else os.path.join(VERIF, "seeded", "*")))
    bad = 0
    with ProcessPoolExecutor(j) as ex:
        for name, ok, keys in ex.map(one, dirs):
            print("%-8s own: %s %s" % (name, ok, keys), flush=True)
            bad += 0 if ok else 1
    print("not caught by own check:", bad)
